//! fiv – futures-intrusive verification harness.
//!
//!   fiv hist <driver> [--mode random|bfs|scenario] [--prop Cxx|all] [--seed N]
//!            [--events N] [--k N] [--tier quick|thorough] [--out file]
//!            [--replay-dir dir] [--max-states N] [--max-depth N]
//!            [--cfg substr] [--shard i --shards n] [--no-shrink]
//!   fiv replay <witness file>
//!   fiv union <hash files…>
//!   fiv list

#[global_allocator]
static GLOBAL: fiv::alloc::Counting = fiv::alloc::Counting;

use fiv::engine::{self, Driver, RunOpts, Tier};
use std::time::Instant;

fn arg<'a>(args: &'a [String], name: &str) -> Option<&'a str> {
    args.iter().position(|a| a == name).and_then(|i| args.get(i + 1)).map(|s| s.as_str())
}

fn run_hist<D: Driver>(opts: &RunOpts) -> i32 {
    let t0 = Instant::now();
    let outcome = match opts.mode.as_str() {
        "bfs" => engine::run_bfs::<D>(opts),
        "sweep" => engine::run_sweep::<D>(opts),
        _ => engine::run_random::<D>(opts),
    };
    let ms = t0.elapsed().as_millis() as u64;
    let js = engine::summary_json::<D>(opts, &outcome, ms);
    if let Some(out) = &opts.out {
        let _ = std::fs::write(out, &js);
        // distinct sets of every property, for cross-shard unions
        for (p, s) in &outcome.ctx.props {
            engine::write_hashes(&format!("{}.{}.hashes", out, p), &s.distinct);
        }
        engine::write_hashes(&format!("{}.states.hashes", out), &outcome.ctx.states);
    } else {
        println!("SUMMARY {}", js);
    }
    for w in &outcome.witnesses {
        println!(
            "VIOLATION property={} replay={} predicate={} driver={} cfg={} :: {}",
            w.fail.prop,
            w.path,
            w.fail.pred,
            D::name(),
            w.cfg,
            w.fail.detail
        );
        println!("  history: {}", w.names.join("; "));
    }
    for (k, (n, ex)) in &outcome.other_fails {
        eprintln!("NOTE other-property={} count={} example={}", k, n, ex);
    }
    if outcome.witnesses.is_empty() {
        0
    } else {
        1
    }
}

macro_rules! drivers {
    ($name:expr, $f:ident, $($arg:expr),*) => {
        match $name {
            "mutex" => $f::<fiv::hist::mutex::MutexDriver>($($arg),*),
            "semaphore" => $f::<fiv::hist::semaphore::SemDriver>($($arg),*),
            "event" => $f::<fiv::hist::event::EventDriver>($($arg),*),
            "ringbuf" => $f::<fiv::ds::ringbuf::RingbufDriver>($($arg),*),
            "list" => $f::<fiv::ds::list::ListDriver>($($arg),*),
            "heap" => $f::<fiv::ds::heap::HeapDriver>($($arg),*),
            "mpmc" => $f::<fiv::hist::mpmc::MpmcDriver>($($arg),*),
            "mpmc-bval" => $f::<fiv::hist::mpmc::MpmcBvalDriver>($($arg),*),
            "state" => $f::<fiv::hist::state::StateDriver>($($arg),*),
            "oneshot" => $f::<fiv::hist::oneshot::OneshotDriver>($($arg),*),
            "timer" => $f::<fiv::hist::timer::TimerDriver>($($arg),*),
            other => {
                eprintln!("unknown driver {}", other);
                2
            }
        }
    };
}

fn replay_any<D: Driver>(w: &engine::WitnessFile) -> i32 {
    engine::replay::<D>(w)
}

fn main() {
    fiv::util::install_quiet_panic_hook();
    let args: Vec<String> = std::env::args().collect();
    let code = match args.get(1).map(|s| s.as_str()) {
        Some("hist") => {
            let driver = args.get(2).cloned().unwrap_or_default();
            let tier = if arg(&args, "--tier") == Some("thorough") { Tier::Thorough } else { Tier::Quick };
            let opts = RunOpts {
                mode: arg(&args, "--mode").unwrap_or("random").to_string(),
                prop: arg(&args, "--prop").unwrap_or("all").to_string(),
                seed: arg(&args, "--seed").and_then(|s| s.parse().ok()).unwrap_or(1),
                events: arg(&args, "--events").and_then(|s| s.parse().ok()).unwrap_or(100_000),
                k: arg(&args, "--k").and_then(|s| s.parse().ok()).unwrap_or(3),
                tier,
                out: arg(&args, "--out").map(|s| s.to_string()),
                replay_dir: arg(&args, "--replay-dir").unwrap_or("replays").to_string(),
                max_states: arg(&args, "--max-states").and_then(|s| s.parse().ok()).unwrap_or(200_000),
                max_depth: arg(&args, "--max-depth").and_then(|s| s.parse().ok()).unwrap_or(64),
                cfg_filter: arg(&args, "--cfg").map(|s| s.to_string()),
                shard: arg(&args, "--shard").and_then(|s| s.parse().ok()).unwrap_or(0),
                shards: arg(&args, "--shards").and_then(|s| s.parse().ok()).unwrap_or(1),
                no_shrink: args.iter().any(|a| a == "--no-shrink"),
            };
            if args.iter().any(|a| a == "--no-inspect") {
                fiv::slots::INSPECT_OFF.store(true, std::sync::atomic::Ordering::Relaxed);
            }
            drivers!(driver.as_str(), run_hist, &opts)
        }
        Some("replay") => match engine::read_witness(args.get(2).map(|s| s.as_str()).unwrap_or("")) {
            Ok(w) => {
                println!("replaying {} history for {} / {} on cfg {}", w.driver, w.prop, w.pred, w.cfg);
                let d = w.driver.clone();
                drivers!(d.as_str(), replay_any, &w)
            }
            Err(e) => {
                eprintln!("cannot read witness: {}", e);
                2
            }
        },
        Some("union") => {
            println!("{}", engine::union_count(&args[2..]));
            0
        }
        _ => {
            eprintln!("usage: fiv hist|replay|union …");
            2
        }
    };
    std::process::exit(code);
}
