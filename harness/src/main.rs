//! fiv – futures-intrusive verification harness.
//!
//!   fiv hist <driver> [--mode random|bfs|scenario] [--prop Cxx|all] [--seed N]
//!            [--events N] [--k N] [--tier quick|thorough] [--out file]
//!            [--replay-dir dir] [--max-states N] [--max-depth N]
//!            [--cfg substr] [--shard i --shards n] [--no-shrink]
//!   fiv replay <witness file>
//!   fiv union <hash files…>
//!   fiv list

#[global_allocator]
static GLOBAL: fiv::alloc::Counting = fiv::alloc::Counting;

use fiv::engine::{self, Driver, RunOpts, Tier};
use std::time::Instant;

fn arg<'a>(args: &'a [String], name: &str) -> Option<&'a str> {
    args.iter().position(|a| a == name).and_then(|i| args.get(i + 1)).map(|s| s.as_str())
}

fn run_hist<D: Driver>(opts: &RunOpts) -> i32 {
    let t0 = Instant::now();
    let outcome = match opts.mode.as_str() {
        "bfs" => engine::run_bfs::<D>(opts),
        "sweep" => engine::run_sweep::<D>(opts),
        _ => engine::run_random::<D>(opts),
    };
    let ms = t0.elapsed().as_millis() as u64;
    let js = engine::summary_json::<D>(opts, &outcome, ms);
    if let Some(out) = &opts.out {
        let _ = std::fs::write(out, &js);
        // distinct sets of every property, for cross-shard unions
        for (p, s) in &outcome.ctx.props {
            if opts.prop == "all" || opts.prop == *p {
                engine::write_hashes(&format!("{}.{}.hashes", out, p), &s.distinct);
            }
        }
        engine::write_hashes(&format!("{}.states.hashes", out), &outcome.ctx.states);
    } else {
        println!("SUMMARY {}", js);
    }
    for w in &outcome.witnesses {
        println!(
            "VIOLATION property={} replay={} predicate={} driver={} cfg={} :: {}",
            w.fail.prop,
            w.path,
            w.fail.pred,
            D::name(),
            w.cfg,
            w.fail.detail
        );
        println!("  history: {}", w.names.join("; "));
    }
    if let Some(n) = outcome.ctx.counters.get("abandoned_histories") {
        // leak checkers must not blame the crate for instances the harness forgot on purpose
        eprintln!("FIV-ABANDONED-HISTORIES {}", n);
    }
    for (k, (n, ex)) in &outcome.other_fails {
        eprintln!("NOTE other-property={} count={} example={}", k, n, ex);
    }
    if outcome.witnesses.is_empty() {
        0
    } else {
        1
    }
}

macro_rules! drivers {
    ($name:expr, $f:ident, $($arg:expr),*) => {
        match $name {
            "mutex" => $f::<fiv::hist::mutex::MutexDriver>($($arg),*),
            "semaphore" => $f::<fiv::hist::semaphore::SemDriver>($($arg),*),
            "event" => $f::<fiv::hist::event::EventDriver>($($arg),*),
            "ringbuf" => $f::<fiv::ds::ringbuf::RingbufDriver>($($arg),*),
            "list" => $f::<fiv::ds::list::ListDriver>($($arg),*),
            "heap" => $f::<fiv::ds::heap::HeapDriver>($($arg),*),
            "mpmc" => $f::<fiv::hist::mpmc::MpmcDriver>($($arg),*),
            "mpmc-bval" => $f::<fiv::hist::mpmc::MpmcBvalDriver>($($arg),*),
            "state" => $f::<fiv::hist::state::StateDriver>($($arg),*),
            "oneshot" => $f::<fiv::hist::oneshot::OneshotDriver>($($arg),*),
            "timer" => $f::<fiv::hist::timer::TimerDriver>($($arg),*),
            other => {
                eprintln!("unknown driver {}", other);
                2
            }
        }
    };
}

fn replay_any<D: Driver>(w: &engine::WitnessFile) -> i32 {
    engine::replay::<D>(w)
}

fn run_conc(args: &[String]) -> i32 {
    use fiv::conc::workloads::{run_workload, ConcStats};
    use fiv::util::Json;
    let name = args.get(2).cloned().unwrap_or_default();
    let prop = arg(args, "--prop").unwrap_or("all").to_string();
    let seed: u64 = arg(args, "--seed").and_then(|s| s.parse().ok()).unwrap_or(1);
    let runs: u64 = arg(args, "--runs").and_then(|s| s.parse().ok()).unwrap_or(100);
    let secs: u64 = arg(args, "--secs").and_then(|s| s.parse().ok()).unwrap_or(3600);
    let replay_dir = arg(args, "--replay-dir").unwrap_or("replays").to_string();
    let out = arg(args, "--out").map(|s| s.to_string());
    futures_intrusive::verif::set_interleave_hook(Some(fiv::conc::interleave_hook));
    fiv::conc::CONC_MODE.store(true, std::sync::atomic::Ordering::Relaxed);
    let mut ctx = fiv::engine::Ctx::new();
    let mut st = ConcStats::new();
    let t0 = Instant::now();
    let mut viols: Vec<(String, String, String, String)> = vec![];
    let mut harness: Vec<String> = vec![];
    let mut other: std::collections::BTreeMap<String, u64> = Default::default();
    for r in 0..runs {
        if t0.elapsed().as_secs() > secs {
            break;
        }
        let rs = seed.wrapping_mul(1_000_003).wrapping_add(r);
        ctx.fails.clear();
        let mut found = run_workload(&name, rs, &mut ctx, &mut st);
        // a verdict of the property under check has priority over a harness problem of the same run
        let has_target = found.iter().any(|v| v.prop != "harness" && (v.prop == prop || prop == "all"));
        if has_target {
            found.retain(|v| v.prop != "harness");
        }
        for v in found {
            if v.prop == "harness" {
                harness.push(format!("{}: {} (run seed {})", v.pred, v.detail, rs));
                if harness.len() > 6 {
                    break;
                }
                continue;
            }
            if v.prop == prop || prop == "all" {
                let path = format!("{}/{}-conc-{}-{}.log", replay_dir, v.prop, name, rs);
                let _ = std::fs::create_dir_all(&replay_dir);
                let _ = std::fs::write(&path, format!("workload {} run-seed {}\nproperty {} predicate {}\n{}\n\nmerged event log (native schedules cannot be replayed; re-check with the same seed or under Miri):\n{}", name, rs, v.prop, v.pred, v.detail, v.log));
                viols.push((v.prop.to_string(), v.pred.to_string(), v.detail.clone(), path));
                if viols.len() >= 3 {
                    break;
                }
            } else {
                *other.entry(format!("{}/{}", v.prop, v.pred)).or_insert(0) += 1;
            }
        }
        if harness.len() > 6 || viols.len() >= 3 {
            break;
        }
    }
    let ms = t0.elapsed().as_millis() as u64;
    let mut j = Json::new();
    j.begin_obj();
    j.kv_str("driver", &format!("conc-{}", name));
    j.kv_str("mode", "conc");
    j.kv_str("prop", &prop);
    j.kv_num("seed", seed);
    j.kv_num("k", 0);
    j.kv_num("events", st.ops);
    j.kv_num("episodes", st.runs);
    j.kv_num("states", st.sigs.len() as u64);
    j.kv_num("transitions", 0);
    j.kv_num("wall_ms", ms);
    j.kv_num("max_queue", 0);
    j.key("bfs");
    j.begin_obj();
    j.kv_num("states", 0);
    j.kv_bool("exhausted", false);
    j.kv_num("max_depth", 0);
    j.kv_num("configs", 0);
    j.kv_num("exhausted_configs", 0);
    j.end_obj();
    j.key("props");
    j.begin_obj();
    for (p, s) in &ctx.props {
        j.key(p);
        j.begin_obj();
        j.kv_num("evals", s.evals);
        j.kv_num("nonvac", s.nonvac);
        j.kv_num("distinct", s.distinct.len() as u64);
        j.key("preds");
        j.begin_obj();
        for (n, stt) in &s.by_pred {
            j.key(n);
            j.begin_arr();
            j.num(stt.evals);
            j.num(stt.nonvac);
            j.end_arr();
        }
        j.end_obj();
        j.end_obj();
    }
    j.end_obj();
    j.key("kinds");
    j.begin_obj();
    j.end_obj();
    j.key("counters");
    j.begin_obj();
    j.kv_num(&format!("conc[{}].runs", name), st.runs);
    j.kv_num(&format!("conc[{}].distinct_interleaving_signatures", name), st.sigs.len() as u64);
    j.kv_num(&format!("conc[{}].futures_cancelled", name), st.cancelled);
    j.kv_num(&format!("conc[{}].futures_completed", name), st.completed);
    j.kv_num(&format!("conc[{}].logical_deadlock_checks", name), st.deadlock_checks);
    j.kv_num(&format!("conc[{}].watchdogs", name), st.watchdogs);
    j.kv_num(&format!("conc[{}].wakeups_delivered", name), st.wakes);
    j.kv_num(&format!("conc[{}].stale_wakeups_ignored", name), st.stale_wakes);
    j.kv_num(&format!("conc[{}].discarded_runs", name), harness.len() as u64);
    for i in 0..16 {
        if st.sites[i] > 0 {
            j.kv_num(&format!("conc.interleave_site[{}].hits", i), st.sites[i]);
        }
    }
    j.end_obj();
    j.key("violations");
    j.begin_arr();
    for (p, pr, d, path) in &viols {
        j.begin_obj();
        j.kv_str("prop", p);
        j.kv_str("pred", pr);
        j.kv_str("detail", d);
        j.kv_str("cfg", &name);
        j.kv_str("replay", path);
        j.kv_num("len", 0);
        j.kv_num("shrunk_from", 0);
        j.key("events");
        j.begin_arr();
        j.str("threaded-run");
        j.end_arr();
        j.end_obj();
    }
    j.end_arr();
    j.key("other_fails");
    j.begin_obj();
    for (k, n) in &other {
        j.key(k);
        j.begin_obj();
        j.kv_num("n", *n);
        j.kv_str("example", "");
        j.end_obj();
    }
    j.end_obj();
    j.key("harness_problems");
    j.begin_arr();
    if harness.len() >= 3 {
        for h in &harness {
            j.str(h);
        }
    }
    j.end_arr();
    j.kv_num("discarded_runs", harness.len() as u64);
    j.key("samples");
    j.begin_arr();
    j.str(&format!("conc {}: {} runs, {} ops, {} distinct interleaving signatures", name, st.runs, st.ops, st.sigs.len()));
    j.end_arr();
    j.end_obj();
    if let Some(o) = &out {
        let _ = std::fs::write(o, &j.s);
        for (p, s) in &ctx.props {
            if prop == "all" || prop == *p {
                engine::write_hashes(&format!("{}.{}.hashes", o, p), &s.distinct);
            }
        }
        engine::write_hashes(&format!("{}.states.hashes", o), &st.sigs);
    } else {
        println!("SUMMARY {}", j.s);
    }
    for (p, pr, d, path) in &viols {
        println!("VIOLATION property={} replay={} predicate={} driver=conc-{} :: {}", p, path, pr, name, d);
    }
    for h in &harness {
        println!("INCONCLUSIVE-HARNESS {}", h);
    }
    // A run that ends in the wall-clock watchdog (or in an all-parked state the supervisor cannot attribute)
    // is discarded: it is neither a pass nor a violation. Isolated ones (a loaded machine) are reported in the
    // evidence; if they pile up the whole shard is inconclusive.
    if !viols.is_empty() {
        1
    } else if harness.len() >= 3 {
        3
    } else {
        0
    }
}

fn main() {
    fiv::util::install_quiet_panic_hook();
    let args: Vec<String> = std::env::args().collect();
    let code = match args.get(1).map(|s| s.as_str()) {
        Some("hist") => {
            let driver = args.get(2).cloned().unwrap_or_default();
            let tier = if arg(&args, "--tier") == Some("thorough") { Tier::Thorough } else { Tier::Quick };
            let opts = RunOpts {
                mode: arg(&args, "--mode").unwrap_or("random").to_string(),
                prop: arg(&args, "--prop").unwrap_or("all").to_string(),
                seed: arg(&args, "--seed").and_then(|s| s.parse().ok()).unwrap_or(1),
                events: arg(&args, "--events").and_then(|s| s.parse().ok()).unwrap_or(100_000),
                k: arg(&args, "--k").and_then(|s| s.parse().ok()).unwrap_or(3),
                tier,
                out: arg(&args, "--out").map(|s| s.to_string()),
                replay_dir: arg(&args, "--replay-dir").unwrap_or("replays").to_string(),
                max_states: arg(&args, "--max-states").and_then(|s| s.parse().ok()).unwrap_or(200_000),
                max_depth: arg(&args, "--max-depth").and_then(|s| s.parse().ok()).unwrap_or(64),
                cfg_filter: arg(&args, "--cfg").map(|s| s.to_string()),
                shard: arg(&args, "--shard").and_then(|s| s.parse().ok()).unwrap_or(0),
                shards: arg(&args, "--shards").and_then(|s| s.parse().ok()).unwrap_or(1),
                no_shrink: args.iter().any(|a| a == "--no-shrink"),
            };
            if args.iter().any(|a| a == "--no-inspect") {
                fiv::slots::INSPECT_OFF.store(true, std::sync::atomic::Ordering::Relaxed);
            }
            drivers!(driver.as_str(), run_hist, &opts)
        }
        Some("conc") => run_conc(&args),
        Some("replay") => match engine::read_witness(args.get(2).map(|s| s.as_str()).unwrap_or("")) {
            Ok(w) => {
                println!("replaying {} history for {} / {} on cfg {}", w.driver, w.prop, w.pred, w.cfg);
                let d = w.driver.clone();
                drivers!(d.as_str(), replay_any, &w)
            }
            Err(e) => {
                eprintln!("cannot read witness: {}", e);
                2
            }
        },
        Some("union") => {
            println!("{}", engine::union_count(&args[2..]));
            0
        }
        _ => {
            eprintln!("usage: fiv hist|replay|union …");
            2
        }
    };
    std::process::exit(code);
}
