//! Small utilities: PRNG, hashing, JSON emission, panic capture.

use std::cell::RefCell;
use std::fmt::Write as _;

/// SplitMix64 / xorshift PRNG – deterministic, no dependencies.
#[derive(Clone)]
pub struct Rng(pub u64);

impl Rng {
    pub fn new(seed: u64) -> Self {
        let mut r = Rng(seed ^ 0x9E37_79B9_7F4A_7C15);
        r.next();
        r.next();
        r
    }
    #[inline]
    pub fn next(&mut self) -> u64 {
        self.0 = self.0.wrapping_add(0x9E37_79B9_7F4A_7C15);
        let mut z = self.0;
        z = (z ^ (z >> 30)).wrapping_mul(0xBF58_476D_1CE4_E5B9);
        z = (z ^ (z >> 27)).wrapping_mul(0x94D0_49BB_1331_11EB);
        z ^ (z >> 31)
    }
    #[inline]
    pub fn below(&mut self, n: usize) -> usize {
        debug_assert!(n > 0);
        (self.next() % (n as u64)) as usize
    }
    #[inline]
    pub fn chance(&mut self, num: u64, den: u64) -> bool {
        self.next() % den < num
    }
}

/// FNV-1a style 64 bit mixing hasher used for state fingerprints.
#[derive(Clone, Copy)]
pub struct Fp(pub u64);

impl Fp {
    pub fn new() -> Self {
        Fp(0xcbf2_9ce4_8422_2325)
    }
    #[inline]
    pub fn add(&mut self, v: u64) {
        let mut x = self.0 ^ v.wrapping_mul(0x9E37_79B9_7F4A_7C15);
        x = (x ^ (x >> 32)).wrapping_mul(0xD6E8_FEB8_6659_FD93);
        x = (x ^ (x >> 32)).wrapping_mul(0xD6E8_FEB8_6659_FD93);
        self.0 = x ^ (x >> 32);
    }
    #[inline]
    pub fn get(&self) -> u64 {
        self.0
    }
}

pub fn mix(a: u64, b: u64) -> u64 {
    let mut f = Fp(a);
    f.add(b);
    f.get()
}

pub fn hash_str(s: &str) -> u64 {
    let mut f = Fp::new();
    for b in s.bytes() {
        f.add(b as u64);
    }
    f.get()
}

/// Minimal JSON writer.
pub struct Json {
    pub s: String,
    first: Vec<bool>,
}

impl Json {
    pub fn new() -> Self {
        Json {
            s: String::new(),
            first: vec![],
        }
    }
    fn sep(&mut self) {
        if let Some(f) = self.first.last_mut() {
            if !*f {
                self.s.push(',');
            }
            *f = false;
        }
    }
    pub fn key(&mut self, k: &str) {
        self.sep();
        self.str_raw(k);
        self.s.push(':');
        // the value that follows must not emit a separator
        if let Some(f) = self.first.last_mut() {
            *f = true;
        }
    }
    fn str_raw(&mut self, v: &str) {
        self.s.push('"');
        for c in v.chars() {
            match c {
                '"' => self.s.push_str("\\\""),
                '\\' => self.s.push_str("\\\\"),
                '\n' => self.s.push_str("\\n"),
                '\t' => self.s.push_str("\\t"),
                c if (c as u32) < 0x20 => {
                    let _ = write!(self.s, "\\u{:04x}", c as u32);
                }
                c => self.s.push(c),
            }
        }
        self.s.push('"');
    }
    pub fn str(&mut self, v: &str) {
        self.sep();
        self.str_raw(v);
    }
    pub fn num(&mut self, v: u64) {
        self.sep();
        let _ = write!(self.s, "{}", v);
    }
    pub fn boolean(&mut self, v: bool) {
        self.sep();
        self.s.push_str(if v { "true" } else { "false" });
    }
    pub fn begin_obj(&mut self) {
        self.sep();
        self.s.push('{');
        self.first.push(true);
    }
    pub fn end_obj(&mut self) {
        self.first.pop();
        self.s.push('}');
        if let Some(f) = self.first.last_mut() {
            *f = false;
        }
    }
    pub fn begin_arr(&mut self) {
        self.sep();
        self.s.push('[');
        self.first.push(true);
    }
    pub fn end_arr(&mut self) {
        self.first.pop();
        self.s.push(']');
        if let Some(f) = self.first.last_mut() {
            *f = false;
        }
    }
    pub fn kv_num(&mut self, k: &str, v: u64) {
        self.key(k);
        self.num(v);
    }
    pub fn kv_str(&mut self, k: &str, v: &str) {
        self.key(k);
        self.str(v);
    }
    pub fn kv_bool(&mut self, k: &str, v: bool) {
        self.key(k);
        self.boolean(v);
    }
}

thread_local! {
    static LAST_PANIC: RefCell<Option<String>> = const { RefCell::new(None) };
}

/// Installs a panic hook which records the message instead of printing it.
pub fn install_quiet_panic_hook() {
    std::panic::set_hook(Box::new(|info| {
        let was_armed = crate::alloc::disarm();
        if crate::conc::CONC_MODE.load(std::sync::atomic::Ordering::Relaxed) {
            crate::conc::WORKER_PANICKED.store(true, std::sync::atomic::Ordering::Relaxed);
        }
        let msg = if let Some(s) = info.payload().downcast_ref::<&str>() {
            s.to_string()
        } else if let Some(s) = info.payload().downcast_ref::<String>() {
            s.clone()
        } else {
            "<non-string panic>".to_string()
        };
        let loc = info
            .location()
            .map(|l| format!("{}:{}", l.file(), l.line()))
            .unwrap_or_default();
        LAST_PANIC.with(|p| *p.borrow_mut() = Some(format!("{} @ {}", msg, loc)));
        if std::env::var_os("FIV_PANIC_VERBOSE").is_some() {
            eprintln!("panic: {} @ {}", msg, loc);
        }
        crate::alloc::rearm(was_armed);
    }));
}

pub fn take_last_panic() -> String {
    LAST_PANIC
        .with(|p| p.borrow_mut().take())
        .unwrap_or_else(|| "<unknown panic>".to_string())
}

/// Runs `f`, converting a panic into `Err(message)`.
pub fn catch<R>(f: impl FnOnce() -> R) -> Result<R, String> {
    match std::panic::catch_unwind(std::panic::AssertUnwindSafe(f)) {
        Ok(r) => Ok(r),
        Err(_) => {
            crate::alloc::disarm();
            Err(take_last_panic())
        }
    }
}

/// A heap allocation that is handed out as `&'static T` while a history runs
/// and reclaimed at its end (keeps the original pointer so that the reclaim is
/// valid under Stacked Borrows, and so that Miri's leak check stays meaningful).
pub struct Leaked<T> {
    raw: *mut T,
}
impl<T> Leaked<T> {
    pub fn new(v: T) -> Self {
        Leaked { raw: Box::into_raw(Box::new(v)) }
    }
    pub fn get(&self) -> &'static T {
        // Safety: valid until `reclaim`
        unsafe { &*self.raw }
    }
    /// Safety: nothing borrows the value any more.
    pub unsafe fn reclaim(self) {
        drop(Box::from_raw(self.raw));
    }
}
