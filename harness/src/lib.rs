//! fiv – runtime monitors for futures-intrusive (see /verif/DESIGN.md).
#![allow(clippy::all)]

pub mod alloc;
pub mod conc;
pub mod ds;
pub mod engine;
pub mod hist;
pub mod locks;
pub mod payload;
pub mod slots;
pub mod util;
pub mod wakers;
