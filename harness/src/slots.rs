//! Future slots, the registry of live wait nodes and the generic monitors
//! which ride on every history: C01 (structure), C17 (is_terminated),
//! C18 (allocation).

use crate::alloc::{self, Counts};
use crate::engine::Ctx;
use crate::util::{catch, Fp};
use crate::wakers;
use futures_core::future::FusedFuture;
use futures_intrusive::verif::{NodeInfo, PrimInfo, Visit};
use std::future::Future;
use std::pin::Pin;
use std::task::{Context, Poll};

/// Access to the intrusive node of a future (verif hooks H4).
pub trait NodeAccess {
    fn node_addr(&self) -> usize;
    /// Only while no other thread can touch the node.
    unsafe fn node_info(&self) -> NodeInfo;
}

#[macro_export]
macro_rules! impl_node_access {
    ($([$($gen:tt)*] $ty:ty),+ $(,)?) => {
        $(
            impl<$($gen)*> $crate::slots::NodeAccess for $ty {
                fn node_addr(&self) -> usize { self.verif_node_addr() }
                unsafe fn node_info(&self) -> futures_intrusive::verif::NodeInfo { self.verif_node_info() }
            }
        )+
    };
}

#[derive(Clone, Copy, PartialEq, Eq, Debug)]
pub enum St {
    /// created, never polled
    Fresh,
    /// last poll returned Pending
    Pending,
    /// returned Ready, or was cancelled
    Done,
}

pub struct Slot<F> {
    pub fut: Option<Pin<Box<F>>>,
    pub st: St,
    pub serial: u32,
    pub addr: usize,
    pub last_poll: u64,
    pub last_waker: usize,
    pub last_flavour: u8,
    /// start of the current wait (logical time of the poll), 0 = not waiting
    pub wait_start: u64,
    pub polls: u32,
    pub flavours_used: u8,
    /// driver specific (request size, tag, deadline …)
    pub arg: u64,
    /// if set, replaces `arg` and the node's `arg` in fingerprints (abstraction
    /// of unbounded values in unbounded runs)
    pub fp_arg: Option<u64>,
}

impl<F> Slot<F> {
    fn empty() -> Self {
        Slot {
            fut: None,
            st: St::Fresh,
            serial: 0,
            addr: 0,
            last_poll: 0,
            last_waker: 0,
            last_flavour: 0,
            wait_start: 0,
            polls: 0,
            flavours_used: 0,
            arg: 0,
            fp_arg: None,
        }
    }
    pub fn live(&self) -> bool {
        self.fut.is_some()
    }
    pub fn pending(&self) -> bool {
        self.fut.is_some() && self.st == St::Pending
    }
    /// Woken through the waker of its latest poll since that poll.
    pub fn woken(&self) -> bool {
        self.last_waker != 0 && wakers::last_wake(self.last_waker) > self.last_poll
    }
}

pub struct Slots<F> {
    pub v: Vec<Slot<F>>,
    pub table: u8,
}

/// Serial numbers are global per episode so that waker ids never repeat.
pub struct Serial(pub u32);

impl Serial {
    pub fn next(&mut self) -> u32 {
        self.0 += 1;
        self.0
    }
    pub fn exhausted(&self) -> bool {
        (self.0 as usize) * 2 + 4 >= wakers::MAX_IDS
    }
}

pub fn c18(ctx: &mut Ctx, what: &'static str, c: Counts, allow_alloc: u64, allow_dealloc: u64) {
    ctx.check(
        "C18",
        what,
        true,
        c.allocs <= allow_alloc && c.deallocs <= allow_dealloc,
        || {
            format!(
                "{} allocs / {} deallocs inside a crate call (allowed {} / {})",
                c.allocs, c.deallocs, allow_alloc, allow_dealloc
            )
        },
    );
}

/// Runs a synchronous crate call armed + panic-guarded. A panic is a C01
/// violation (no call panics on a contract-respecting history).
pub fn call<R>(
    ctx: &mut Ctx,
    what: &'static str,
    allow_alloc: u64,
    allow_dealloc: u64,
    f: impl FnOnce() -> R,
) -> Option<R> {
    call_p(ctx, "C01", what, allow_alloc, allow_dealloc, f)
}

/// Like `call`, but a panic is attributed to `prop`.
pub fn call_p<R>(
    ctx: &mut Ctx,
    prop: &'static str,
    what: &'static str,
    allow_alloc: u64,
    allow_dealloc: u64,
    f: impl FnOnce() -> R,
) -> Option<R> {
    match catch(|| alloc::armed(f)) {
        Ok((r, c)) => {
            c18(ctx, what, c, allow_alloc, allow_dealloc);
            Some(r)
        }
        Err(msg) => {
            ctx.fail(prop, "no-panic-on-contract-respecting-history", format!("{}: panic: {}", what, msg));
            None
        }
    }
}

impl<F> Slots<F>
where
    F: Future + FusedFuture + NodeAccess,
{
    pub fn new(k: usize, table: u8) -> Self {
        let mut v = Vec::with_capacity(k);
        for _ in 0..k {
            v.push(Slot::empty());
        }
        Slots { v, table }
    }

    pub fn create(&mut self, i: usize, serial: &mut Serial, ctx: &mut Ctx, arg: u64, mk: impl FnOnce() -> F) {
        assert!(self.v[i].fut.is_none());
        let f = match call(ctx, "create-future", 0, 0, mk) {
            Some(f) => f,
            None => return,
        };
        let b = Box::pin(f);
        let addr = b.node_addr();
        let s = &mut self.v[i];
        *s = Slot::empty();
        s.fut = Some(b);
        s.serial = serial.next();
        s.addr = addr;
        s.arg = arg;
    }

    /// Polls slot `i` with waker flavour `fl` (0 = A, 1 = B).
    pub fn poll(&mut self, i: usize, fl: u8, ctx: &mut Ctx, allow_alloc: u64, allow_dealloc: u64) -> Option<Poll<F::Output>> {
        let s = &mut self.v[i];
        let id = (s.serial as usize) * 2 + fl as usize;
        let w = wakers::waker(id);
        let seq = wakers::tick();
        s.last_poll = seq;
        s.last_waker = id;
        s.last_flavour = fl;
        s.polls += 1;
        s.flavours_used |= 1 << fl;
        let fut = s.fut.as_mut().expect("poll of empty slot");
        let r = catch(|| {
            alloc::armed(|| {
                let mut cx = Context::from_waker(&w);
                fut.as_mut().poll(&mut cx)
            })
        });
        drop(w);
        match r {
            Ok((p, c)) => {
                c18(ctx, "poll", c, allow_alloc, allow_dealloc);
                match &p {
                    Poll::Pending => {
                        if s.st != St::Pending {
                            s.wait_start = seq;
                        }
                        s.st = St::Pending;
                    }
                    Poll::Ready(_) => {
                        s.st = St::Done;
                        s.wait_start = 0;
                    }
                }
                Some(p)
            }
            Err(msg) => {
                ctx.fail("C01", "no-panic-on-contract-respecting-history", format!("poll: panic: {}", msg));
                None
            }
        }
    }

    /// Drops the future in slot `i`: the crate's `Drop` runs armed, the box is
    /// freed disarmed (so that a dangling waiter is a real freed block).
    pub fn drop_fut(&mut self, i: usize, ctx: &mut Ctx, allow_dealloc: u64) {
        let s = &mut self.v[i];
        let b = s.fut.take().expect("drop of empty slot");
        // Safety: the future is dropped in place, never moved
        let raw: *mut F = Box::into_raw(unsafe { Pin::into_inner_unchecked(b) });
        let r = catch(|| alloc::armed(|| unsafe { core::ptr::drop_in_place(raw) }));
        // free the memory without running Drop again
        unsafe {
            drop(Box::from_raw(raw as *mut core::mem::ManuallyDrop<F>));
        }
        match r {
            Ok(((), c)) => c18(ctx, "drop-future", c, 0, allow_dealloc),
            Err(msg) => ctx.fail(
                "C01",
                "no-panic-on-contract-respecting-history",
                format!("drop of future: panic: {}", msg),
            ),
        }
        *s = Slot::empty();
    }

    /// C17: `is_terminated()` is exact.
    pub fn check_terminated(&self, ctx: &mut Ctx) {
        for (i, s) in self.v.iter().enumerate() {
            if let Some(f) = &s.fut {
                let t = f.is_terminated();
                ctx.check("C17", "is_terminated-exact", true, t == (s.st == St::Done), || {
                    format!(
                        "table {} slot {}: is_terminated()={} but harness status {:?} after {} polls",
                        self.table, i, t, s.st, s.polls
                    )
                });
            }
        }
    }

    pub fn regs(&self, out: &mut Vec<Reg>) {
        for (i, s) in self.v.iter().enumerate() {
            if s.fut.is_some() {
                out.push(Reg {
                    addr: s.addr,
                    table: self.table,
                    slot: i as u8,
                    st: s.st,
                    woken: s.woken(),
                });
            }
        }
    }

    pub fn node_info(&self, i: usize) -> NodeInfo {
        // Safety: single threaded, or called under the primitive's lock
        unsafe { self.v[i].fut.as_ref().unwrap().node_info() }
    }

    pub fn any_live(&self) -> bool {
        self.v.iter().any(|s| s.fut.is_some())
    }

    /// Arrival rank of the pending slots (0 = longest waiting) for fingerprints.
    pub fn fp_slots(&self, f: &mut Fp, view: &View) {
        let mut order: Vec<(u64, usize)> = self
            .v
            .iter()
            .enumerate()
            .filter(|(_, s)| s.pending())
            .map(|(i, s)| (s.wait_start, i))
            .collect();
        order.sort();
        for (i, s) in self.v.iter().enumerate() {
            f.add(0x51);
            if s.fut.is_none() {
                f.add(0);
                continue;
            }
            f.add(match s.st {
                St::Fresh => 1,
                St::Pending => 2,
                St::Done => 3,
            });
            f.add(s.woken() as u64);
            f.add(s.fp_arg.unwrap_or(s.arg));
            f.add(order.iter().position(|(_, j)| *j == i).map_or(99, |p| p as u64));
            if let Some(info) = view.info_of(self.table, i as u8) {
                f.add(info.state as u64);
                f.add(info.has_waker as u64);
                // flavour of the stored waker relative to this slot's serial
                let wd = info.waker_data;
                let rel = if wd == 0 {
                    9
                } else if wd / 2 == s.serial as usize {
                    (wd % 2) as u64
                } else {
                    7
                };
                f.add(rel);
                f.add(s.fp_arg.unwrap_or(info.arg));
            }
            f.add(s.last_flavour as u64);
        }
    }
}

/// One live future known to the harness.
#[derive(Clone, Copy, Debug)]
pub struct Reg {
    pub addr: usize,
    pub table: u8,
    pub slot: u8,
    pub st: St,
    pub woken: bool,
}

/// Result of one `verif_inspect` walk, validated against the registry.
#[derive(Default)]
pub struct View {
    pub prim: PrimInfo,
    /// per queue: registry indices in walk order (head → tail / DFS)
    pub queues: [Vec<usize>; 2],
    pub regs: Vec<Reg>,
    /// node info per registry index
    pub infos: Vec<Option<NodeInfo>>,
    pub ok: bool,
}

impl View {
    pub fn info_of(&self, table: u8, slot: u8) -> Option<NodeInfo> {
        self.regs
            .iter()
            .position(|r| r.table == table && r.slot == slot)
            .and_then(|i| self.infos[i])
    }
    pub fn queued(&self, table: u8, slot: u8) -> Option<(u8, usize)> {
        for q in 0..2 {
            for (pos, ri) in self.queues[q].iter().enumerate() {
                let r = &self.regs[*ri];
                if r.table == table && r.slot == slot {
                    return Some((q as u8, pos));
                }
            }
        }
        None
    }
    /// Slots (table, slot) of queue `q` from tail to head = oldest first.
    pub fn oldest_first(&self, q: usize) -> Vec<(u8, u8)> {
        self.queues[q]
            .iter()
            .rev()
            .map(|ri| (self.regs[*ri].table, self.regs[*ri].slot))
            .collect()
    }
    pub fn fp_queues(&self, f: &mut Fp) {
        for q in 0..2 {
            f.add(0x71 + q as u64);
            for ri in &self.queues[q] {
                let r = &self.regs[*ri];
                f.add(((r.table as u64) << 8) | r.slot as u64);
            }
        }
    }
}

/// Sanitizer legs switch the structural monitor off: the monitor refuses to
/// follow a dangling queue entry (and ends the history), which would keep
/// ASan / Miri / memcheck from ever seeing the use-after-free itself.
pub static INSPECT_OFF: std::sync::atomic::AtomicBool = std::sync::atomic::AtomicBool::new(false);
pub fn inspect_on() -> bool {
    !INSPECT_OFF.load(std::sync::atomic::Ordering::Relaxed)
}

#[derive(Clone, Copy, PartialEq, Eq)]
pub enum Shape {
    List,
    Heap,
}

/// C01: walks the primitive's queue(s) under its own lock through the H3
/// hook, never dereferencing an address that is not a registered live node.
pub fn inspect_and_check(
    ctx: &mut Ctx,
    shape: Shape,
    regs: Vec<Reg>,
    inspect: &mut dyn FnMut(&mut dyn FnMut(Visit) -> bool),
    free_info: &mut dyn FnMut(&Reg) -> NodeInfo,
    // does the poll state recorded in the node say "this node is linked into the wait queue"?
    says_linked: &dyn Fn(&Reg, &NodeInfo) -> bool,
) -> View {
    let n = regs.len();
    let mut view = View {
        prim: PrimInfo::default(),
        queues: [vec![], vec![]],
        regs,
        infos: vec![None; n],
        ok: true,
    };
    if !inspect_on() {
        // scalar state only; no node is visited or dereferenced
        let v = &mut view;
        inspect(&mut |x: Visit| match x {
            Visit::Prim(p) => {
                v.prim = p;
                true
            }
            Visit::Addr(..) => false,
            _ => true,
        });
        return view;
    }
    let mut problems: Vec<(&'static str, String)> = vec![];
    let mut seen = vec![false; n];
    let mut visited = 0usize;
    {
        let view_ref = &mut view;
        let problems_ref = &mut problems;
        let seen_ref = &mut seen;
        let mut visitor = |v: Visit| -> bool {
            match v {
                Visit::Prim(p) => {
                    view_ref.prim = p;
                    true
                }
                Visit::Addr(q, addr) => {
                    visited += 1;
                    if visited > n + 1 {
                        problems_ref.push(("queue-has-no-cycle", format!("queue {} walk exceeds the number of live futures ({})", q, n)));
                        return false;
                    }
                    match view_ref.regs.iter().position(|r| r.addr == addr) {
                        None => {
                            problems_ref.push((
                                "queued-node-is-a-live-future",
                                format!("queue {} contains address {:#x} which is not the node of any live future (dangling waiter)", q, addr),
                            ));
                            false
                        }
                        Some(ri) => {
                            if seen_ref[ri] {
                                problems_ref.push(("queued-at-most-once", format!("queue {}: node of table {} slot {} linked twice", q, view_ref.regs[ri].table, view_ref.regs[ri].slot)));
                                return false;
                            }
                            true
                        }
                    }
                }
                Visit::Node(q, addr, info) => {
                    let ri = view_ref.regs.iter().position(|r| r.addr == addr).unwrap();
                    seen_ref[ri] = true;
                    view_ref.infos[ri] = Some(info);
                    view_ref.queues[q as usize & 1].push(ri);
                    true
                }
                Visit::Done => {
                    // not-queued live nodes are read while the lock is still held
                    for ri in 0..n {
                        if !seen_ref[ri] {
                            let r = view_ref.regs[ri];
                            view_ref.infos[ri] = Some(free_info(&r));
                        }
                    }
                    true
                }
            }
        };
        inspect(&mut visitor);
    }
    let dangling = !problems.is_empty();
    let total_q = view.queues[0].len() + view.queues[1].len();
    ctx.max_queue = ctx.max_queue.max(total_q as u64);
    // 1-3: membership, duplicates, cycles
    ctx.check("C01", "queue-walk-sound", total_q > 0 || dangling, !dangling, || {
        problems.iter().map(|(p, d)| format!("{}: {}", p, d)).collect::<Vec<_>>().join(" | ")
    });
    if dangling {
        view.ok = false;
        return view;
    }
    // link consistency
    let mut link_problem: Option<String> = None;
    match shape {
        Shape::List => {
            for q in 0..2 {
                let (head, tail) = if q == 0 { (view.prim.head, view.prim.tail) } else { (view.prim.head2, view.prim.tail2) };
                let ids = &view.queues[q];
                if ids.is_empty() {
                    if head != 0 || tail != 0 {
                        link_problem = Some(format!("queue {} empty walk but head={:#x} tail={:#x}", q, head, tail));
                    }
                    continue;
                }
                let addr_of = |ri: usize| view.regs[ri].addr;
                if head != addr_of(ids[0]) {
                    link_problem = Some(format!("queue {}: head != first walked node", q));
                }
                if tail != addr_of(*ids.last().unwrap()) {
                    link_problem = Some(format!("queue {}: tail {:#x} != last walked node {:#x}", q, tail, addr_of(*ids.last().unwrap())));
                }
                for (pos, ri) in ids.iter().enumerate() {
                    let info = view.infos[*ri].unwrap();
                    let exp_prev = if pos == 0 { 0 } else { addr_of(ids[pos - 1]) };
                    let exp_next = if pos + 1 == ids.len() { 0 } else { addr_of(ids[pos + 1]) };
                    if info.prev != exp_prev || info.next != exp_next {
                        link_problem = Some(format!(
                            "queue {} pos {}: prev/next = {:#x}/{:#x}, expected {:#x}/{:#x}",
                            q, pos, info.prev, info.next, exp_prev, exp_next
                        ));
                    }
                }
            }
        }
        Shape::Heap => {
            let ids = &view.queues[0];
            if ids.is_empty() {
                if view.prim.head != 0 {
                    link_problem = Some("heap: empty walk but root set".into());
                }
            } else {
                let find = |addr: usize| view.regs.iter().position(|r| r.addr == addr);
                if view.prim.head != view.regs[ids[0]].addr {
                    link_problem = Some("heap: root != first walked node".into());
                }
                for ri in ids {
                    let me = view.regs[*ri].addr;
                    let info = view.infos[*ri].unwrap();
                    if me == view.prim.head {
                        if info.parent != 0 || info.prev != 0 || info.next != 0 {
                            link_problem = Some("heap: root has parent/sibling links".into());
                        }
                    } else {
                        match find(info.parent).and_then(|p| view.infos[p]) {
                            None => link_problem = Some(format!("heap: node {:#x} has unknown parent {:#x}", me, info.parent)),
                            Some(pinfo) => {
                                if pinfo.arg > info.arg {
                                    link_problem = Some(format!("heap order: parent key {} > child key {}", pinfo.arg, info.arg));
                                }
                                if info.prev == 0 && pinfo.first_child != me {
                                    link_problem = Some("heap: first child mismatch".into());
                                }
                            }
                        }
                    }
                    for (lnk, back) in [(info.next, 0u8), (info.prev, 1u8)] {
                        if lnk != 0 {
                            match find(lnk).and_then(|p| view.infos[p]) {
                                None => link_problem = Some(format!("heap: sibling link {:#x} is not a queued live node", lnk)),
                                Some(o) => {
                                    let sym = if back == 0 { o.prev } else { o.next };
                                    if sym != me || o.parent != info.parent {
                                        link_problem = Some("heap: sibling links not symmetric / different parents".into());
                                    }
                                }
                            }
                        }
                    }
                    if info.first_child != 0 {
                        match find(info.first_child).and_then(|p| view.infos[p]) {
                            None => link_problem = Some("heap: first_child is not a queued live node".into()),
                            Some(c) => {
                                if c.parent != me || c.prev != 0 {
                                    link_problem = Some("heap: first_child back links wrong".into());
                                }
                            }
                        }
                    }
                }
            }
        }
    }
    ctx.check("C01", "links-mutually-consistent", total_q > 0, link_problem.is_none(), || link_problem.clone().unwrap_or_default());
    // queued => Pending
    for q in 0..2 {
        for ri in &view.queues[q] {
            let r = view.regs[*ri];
            ctx.check("C01", "queued-implies-alive-and-pending", true, r.st == St::Pending, || {
                format!("table {} slot {} is linked into queue {} but its last poll did not return Pending ({:?})", r.table, r.slot, q, r.st)
            });
        }
    }
    // the queue contains exactly the live futures whose own poll state says they are waiting in it
    for ri in 0..n {
        let r = view.regs[ri];
        let queued = seen[ri];
        let info = view.infos[ri].unwrap();
        let linked = says_linked(&r, &info);
        ctx.check("C01", "queue-holds-exactly-the-futures-whose-poll-state-says-waiting", r.st != St::Fresh, queued == linked, || {
            format!(
                "table {} slot {}: node poll state {} says linked={}, but the node is {} the wait queue",
                r.table, r.slot, info.state, linked, if queued { "in" } else { "not in" }
            )
        });
        if !queued {
            let clean = info.prev == 0 && info.next == 0 && info.parent == 0 && info.first_child == 0;
            ctx.check("C20", "unqueued-node-has-no-links", r.st != St::Fresh, clean, || {
                format!("table {} slot {} is in no queue but carries links {:?}", r.table, r.slot, info)
            });
        }
    }
    view
}

/// Evidence: the drop matrix (poll state at drop x queue position x waker swapped before).
pub fn count_drop(ctx: &mut Ctx, view: &View, table: u8, slot: u8, flavours_used: u8) {
    let info = view.info_of(table, slot);
    let pos = view.queued(table, slot);
    let name = format!(
        "drop[table={},state={},pos={},swapped={}]",
        table,
        info.map_or(9, |i| i.state),
        match pos {
            None => "unqueued",
            Some((q, p)) if p == 0 && view.queues[q as usize].len() == 1 => "only",
            Some((_, 0)) => "front",
            Some((q, p)) if p + 1 == view.queues[q as usize].len() => "back",
            _ => "middle",
        },
        (flavours_used == 3) as u8
    );
    ctx.count(&name, 1);
}
