//! Threaded workloads and their log checkers.

use super::*;
use crate::engine::{Ctx, Ev, Fail};
use crate::locks::{Pl, Spin};
use futures_intrusive::buffer::{ArrayBuf, FixedHeapBuf, RingBuf};
use futures_intrusive::channel::shared::{generic_channel, generic_oneshot_broadcast_channel, generic_oneshot_channel, generic_state_broadcast_channel};
use futures_intrusive::channel::{GenericChannel, StateId, TryReceiveError, TrySendError};
use futures_intrusive::sync::{GenericManualResetEvent, GenericMutex, GenericSemaphore};
use futures_intrusive::timer::{GenericTimerService, MockClock, Timer};
use futures_intrusive::verif::Visit;
use lock_api::RawMutex;
use std::collections::{HashMap, HashSet};
use std::sync::atomic::{AtomicBool, AtomicU64, Ordering::*};

pub struct ConcStats {
    pub runs: u64,
    pub ops: u64,
    pub sigs: HashSet<u64>,
    pub sites: [u64; 16],
    pub cancelled: u64,
    pub completed: u64,
    pub deadlock_checks: u64,
    pub watchdogs: u64,
    /// wake-ups that arrived through a waker older than the one of the task's latest poll (ignored)
    pub stale_wakes: u64,
    /// polls that replaced the waker identity of a pending future
    pub wakes: u64,
    pub samples: Vec<String>,
}

impl ConcStats {
    pub fn new() -> Self {
        ConcStats { runs: 0, ops: 0, sigs: HashSet::new(), sites: [0; 16], cancelled: 0, completed: 0, deadlock_checks: 0, watchdogs: 0, stale_wakes: 0, wakes: 0, samples: vec![] }
    }
    fn absorb(&mut self, run: &Arc<Run>, logs: &[Vec<LogEv>]) {
        self.runs += 1;
        self.ops += run.ops.load(Relaxed);
        for i in 0..16 {
            self.sites[i] += run.sites[i].load(Relaxed);
        }
        for t in &run.tasks {
            self.stale_wakes += t.stale_wakes.load(Relaxed);
            self.wakes += t.wakes.load(Relaxed);
        }
        if self.sigs.len() < 2_000_000 {
            self.sigs.insert(sig_of(logs));
        }
    }
}

pub struct Violation {
    pub prop: &'static str,
    pub pred: &'static str,
    pub detail: String,
    pub log: String,
}

fn dump(logs: &[Vec<LogEv>], names: &[&str]) -> String {
    let mut all: Vec<&LogEv> = logs.iter().flatten().collect();
    all.sort_by_key(|e| e.call);
    let mut s = String::new();
    for e in all {
        use std::fmt::Write;
        let _ = writeln!(s, "call={:6} ret={:6} task={} {}({}) -> {}", e.call, e.ret, e.task, names.get(e.op as usize).copied().unwrap_or("?"), e.arg, e.res);
    }
    s
}

/// Messages of worker threads that panicked inside a crate call.
pub static WORKER_PANICS: std::sync::Mutex<Vec<String>> = std::sync::Mutex::new(Vec::new());

fn joined(h: std::thread::ScopedJoinHandle<'_, Vec<LogEv>>) -> Vec<LogEv> {
    match h.join() {
        Ok(l) => l,
        Err(e) => {
            let msg = if let Some(s) = e.downcast_ref::<&str>() {
                s.to_string()
            } else if let Some(s) = e.downcast_ref::<String>() {
                s.clone()
            } else {
                "<non-string panic>".into()
            };
            WORKER_PANICS.lock().unwrap().push(msg);
            vec![]
        }
    }
}

fn wall_limit() -> Duration {
    if cfg!(miri) {
        Duration::from_secs(3600)
    } else {
        Duration::from_secs(20)
    }
}

macro_rules! log {
    ($logs:expr, $run:expr, $task:expr, $op:expr, $arg:expr, $body:expr) => {{
        let call = $run.now();
        let res = $body;
        let ret = $run.now();
        $logs.push(LogEv { task: $task as u16, op: $op, arg: $arg as u64, res: res.1, call, ret });
        res.0
    }};
}

fn drive_stats<T>(st: &AtomicU64, sc: &AtomicU64, o: &Outcome<T>) {
    match o {
        Outcome::Ready(_) => {
            sc.fetch_add(1, Relaxed);
        }
        Outcome::Cancelled => {
            st.fetch_add(1, Relaxed);
        }
        Outcome::Aborted => {}
    }
}


/// C01 (thread part): after every worker joined, every future has been dropped (many of them
/// cancelled on threads other than the one that notified them): the wait queues must be empty.
fn queues_empty(ctx: &mut Ctx, what: &'static str, inspect: &mut dyn FnMut(&mut dyn FnMut(Visit) -> bool)) {
    let mut prim = futures_intrusive::verif::PrimInfo::default();
    let mut nodes = 0usize;
    inspect(&mut |v| match v {
        Visit::Prim(p) => {
            prim = p;
            true
        }
        Visit::Addr(..) => {
            nodes += 1;
            false // never dereference: every future is gone, any entry is dangling
        }
        _ => true,
    });
    let clean = nodes == 0 && prim.head == 0 && prim.tail == 0 && prim.head2 == 0 && prim.tail2 == 0;
    ctx.check("C01", "wait-queues-empty-after-all-threads-dropped-their-futures", true, clean, || {
        format!("{}: {} dangling queue entries (head {:#x} tail {:#x} head2 {:#x}) after all futures were dropped", what, nodes, prim.head, prim.tail, prim.head2)
    });
}

// ------------------------------------------------------------------ mutex (C02, C03)
pub fn wl_mutex<M: RawMutex + Send + Sync + 'static>(seed: u64, n: usize, rounds: usize, fair: bool, ctx: &mut Ctx, st: &mut ConcStats) -> Option<Violation> {
    let m: GenericMutex<M, u64> = GenericMutex::new(0, fair);
    let in_cs = AtomicBool::new(false);
    let overlap = AtomicU64::new(0);
    let acquired = AtomicU64::new(0);
    let cancelled = AtomicU64::new(0);
    let completed = AtomicU64::new(0);
    let run = Run::new(n);
    let fair_recs = std::sync::Mutex::new(Vec::<FairRec>::new());
    let mut logs: Vec<Vec<LogEv>> = vec![];
    let mut verdict = Verdict::Finished;
    let mut free_at_deadlock = false;
    std::thread::scope(|s| {
        let mut hs = vec![];
        for i in 0..n {
            let (m, in_cs, overlap, acquired, cancelled, completed, fair_recs, run) = (&m, &in_cs, &overlap, &acquired, &cancelled, &completed, &fair_recs, run.clone());
            hs.push(s.spawn(move || {
                enter_worker(&run, i, seed ^ (i as u64 + 1).wrapping_mul(0x9E37_79B9));
                let mut rng = Rng::new(seed.wrapping_mul(31).wrapping_add(i as u64));
                let mut lg: Vec<LogEv> = Vec::with_capacity(rounds + 2);
                let mut fr: Vec<FairRec> = Vec::with_capacity(rounds + 2);
                let crit = |g: &mut u64| {
                    if in_cs.swap(true, Relaxed) {
                        overlap.fetch_add(1, Relaxed);
                    }
                    *g += 1; // non-atomic: Miri / TSan watch this access
                    if in_cs.load(Relaxed) {
                        std::hint::spin_loop();
                    }
                    in_cs.store(false, Relaxed);
                    acquired.fetch_add(1, Relaxed);
                };
                for r in 0..=rounds {
                    if run.abort.load(Relaxed) {
                        break;
                    }
                    let last = r == rounds;
                    // every fourth run is heavy on the synchronous path (try_lock racing the queue)
                    if !last && (rng.below(10) < 2 || (seed % 4 == 0 && rng.below(2) == 0)) {
                        let c0 = run.now();
                        let got = m.try_lock();
                        let c1 = run.now();
                        fr.push(FairRec { task: i as u16, first_call: c0, reg_ret: 0, end_call: c0, end_ret: c1, ok: got.is_some(), n: 1, rel_call: 0 });
                        log!(lg, run, i, 0u8, 0u64, {
                            match got {
                                Some(mut g) => {
                                    crit(&mut *g);
                                    fr.last_mut().unwrap().rel_call = run.now();
                                    drop(g);
                                    ((), 1)
                                }
                                None => ((), 0),
                            }
                        });
                        continue;
                    }
                    // half of the tasks end with a blocking lock (they must be woken), the others may end by
                    // abandoning a notified future: then nobody is left to rescue a stranded waiter
                    let how = if last && i % 2 == 0 { if rng.below(3) == 0 { Drive::Repoll(1) } else { Drive::Block } } else { pick_drive(&mut rng) };
                    log!(lg, run, i, 1u8, how_code(how), {
                        let o = drive(&run, i, m.lock(), how, 1);
                        drive_stats(cancelled, completed, &o);
                        fr.push(fair_rec(&run, i, matches!(o, Outcome::Ready(_)), 1));
                        match o {
                            Outcome::Ready(mut g) => {
                                crit(&mut *g);
                                if rng.below(3) == 0 {
                                    std::thread::yield_now();
                                }
                                fr.last_mut().unwrap().rel_call = run.now();
                                drop(g);
                                ((), 1)
                            }
                            Outcome::Cancelled => ((), 0),
                            Outcome::Aborted => ((), 9),
                        }
                    });
                }
                fair_recs.lock().unwrap().extend(fr);
                leave_worker(&run, i);
                lg
            }));
        }
        verdict = supervise(&run, wall_limit());
        if verdict != Verdict::Finished {
            free_at_deadlock = !m.is_locked();
            abort_all(&run);
        }
        for h in hs {
            logs.push(joined(h));
        }
    });
    st.absorb(&run, &logs);
    st.cancelled += cancelled.load(Relaxed);
    st.completed += completed.load(Relaxed);
    let names = ["try_lock", "lock"];
    queues_empty(ctx, "mutex", &mut |v| m.verif_inspect(v));
    let total = acquired.load(Relaxed);
    // every guard and every future is gone: is_locked() must be false (C02). Whether try_lock() succeeds is not
    // asked here: on a crate that is broken elsewhere a fair mutex refuses it because of a leftover queue entry,
    // which is C01's business (`queues_empty` above), not C02's.
    let still_locked = m.is_locked();
    ctx.check("C02", "is_locked-false-once-every-guard-is-dropped", true, !still_locked, || "is_locked() is true although no guard is alive".into());
    let value = match m.try_lock() {
        Some(g) => *g,
        None => total,
    };
    let ov = overlap.load(Relaxed);
    ctx.check("C02", "threads-never-inside-the-critical-section-together", total > 0, ov == 0, || format!("{} overlapping critical sections observed", ov));
    ctx.check("C02", "non-atomic-counter-equals-number-of-acquisitions", total > 0, value == total || verdict != Verdict::Finished, || {
        format!("protected counter is {} after {} acquisitions", value, total)
    });
    if fair {
        let recs = fair_recs.lock().unwrap();
        let v = fairness_violation(&recs, overlap.load(Relaxed) == 0);
        ctx.check("C04", "no-attempt-overtakes-a-waiter-that-was-queued-before-it-started", recs.iter().any(|r| r.reg_ret > 0), v.is_none(), || v.clone().unwrap());
    }
    match verdict {
        Verdict::Finished => ctx.check("C03", "looping-tasks-with-cancellation-terminate", true, true, String::new),
        Verdict::AllParked => {
            st.deadlock_checks += 1;
            ctx.check("C03", "looping-tasks-with-cancellation-terminate", true, !free_at_deadlock, || {
                "all unfinished tasks are parked with clear wake tokens while the mutex is free: lost wake-up".to_string()
            });
            if !free_at_deadlock {
                return Some(Violation { prop: "harness", pred: "all-parked-but-resource-unavailable", detail: "mutex still locked while everybody is parked".into(), log: dump(&logs, &names) });
            }
        }
        Verdict::Watchdog => {
            st.watchdogs += 1;
            return Some(Violation { prop: "harness", pred: "watchdog", detail: "wall clock watchdog".into(), log: String::new() });
        }
    }
    take_fail(ctx, &logs, &names)
}

/// One lock / acquire attempt as the fairness oracle sees it (stamps from the run's single counter).
#[derive(Clone, Copy, Debug)]
pub struct FairRec {
    pub task: u16,
    /// call of the first poll (or of try_lock / try_acquire)
    pub first_call: u64,
    /// return of the first poll that was Pending; 0 = the attempt never waited
    pub reg_ret: u64,
    /// call of the poll that completed it, or of the drop that cancelled it
    pub end_call: u64,
    /// return of the completing call
    pub end_ret: u64,
    pub ok: bool,
    pub n: u64,
    /// successful attempts: stamp taken right before the guard / releaser was given back (0 = never)
    pub rel_call: u64,
}

fn fair_rec(run: &Arc<Run>, i: usize, ok: bool, n: u64) -> FairRec {
    let c = &run.tasks[i];
    FairRec { task: i as u16, first_call: c.t_first_call.load(Relaxed), reg_ret: c.t_reg_ret.load(Relaxed), end_call: c.t_end_call.load(Relaxed), end_ret: c.t_end_ret.load(Relaxed), ok, n, rel_call: 0 }
}

/// Threaded fairness oracle (C04 / C07), sound by construction: attempt A *returned* Pending from its first poll
/// (it is queued) before attempt B was even *called*; B succeeded and its successful call returned before the
/// call that completed A (or the drop that cancelled A) began. Then B overtook a request that started waiting
/// earlier and was still pending. Requests for zero permits (n == 0) are exempt on both sides.
///
/// `exclusive` (mutex; semaphore with one permit in total; only if the run showed no overlap of holders): the
/// resource has one holder at a time, so an attempt B whose completing call began after holder P had acquired
/// cannot have acquired before P *began* to give the resource back: for a B that never waited (try_lock, or a
/// future that completed at its first poll) the effective start is max(B.first_call, P.rel_call). This catches an attempt that was already under way when A queued up but can
/// only have succeeded after A was queued (e.g. a try_lock that checks the queue and takes the lock in two
/// separate critical sections).
fn fairness_violation(recs: &[FairRec], exclusive: bool) -> Option<String> {
    let mut succ: Vec<(u64, &FairRec)> = recs.iter().filter(|r| r.ok && r.n > 0).map(|r| (r.first_call, r)).collect();
    if succ.is_empty() {
        return None;
    }
    if exclusive {
        let mut by_end: Vec<&FairRec> = succ.iter().map(|x| x.1).collect();
        by_end.sort_by_key(|r| r.end_ret);
        let mut pref = vec![0u64; by_end.len() + 1];
        for (k, p) in by_end.iter().enumerate() {
            pref[k + 1] = pref[k].max(p.rel_call);
        }
        for x in succ.iter_mut() {
            // only for attempts that never waited: one that waited took its place in the queue when it
            // registered, which may well have been before A did
            if x.1.reg_ret == 0 {
                let k = by_end.partition_point(|p| p.end_ret < x.1.end_call);
                x.0 = x.0.max(pref[k]);
            }
        }
    }
    succ.sort_by_key(|x| x.0);
    let eff: Vec<u64> = succ.iter().map(|x| x.0).collect();
    let succ: Vec<&FairRec> = succ.iter().map(|x| x.1).collect();
    // suffix minimum of end_ret over the successes ordered by first_call
    let mut suf: Vec<(u64, usize)> = vec![(u64::MAX, 0); succ.len() + 1];
    for k in (0..succ.len()).rev() {
        suf[k] = if succ[k].end_ret < suf[k + 1].0 { (succ[k].end_ret, k) } else { suf[k + 1] };
    }
    for a in recs.iter().filter(|r| r.reg_ret > 0 && r.n > 0) {
        let idx = eff.partition_point(|e| *e <= a.reg_ret);
        if idx < succ.len() && suf[idx].0 < a.end_call {
            let b = succ[suf[idx].1];
            return Some(format!(
                "task {} was queued (first poll returned Pending at stamp {}) before the attempt of task {} can have taken effect (called at {}, previous holder began to release at {}), yet that attempt succeeded (returned at {}) before the waiting one was completed or dropped (that call began at {})",
                a.task, a.reg_ret, b.task, b.first_call, eff[suf[idx].1], b.end_ret, a.end_call
            ));
        }
    }
    None
}

fn how_code(h: Drive) -> u64 {
    match h {
        Drive::Block => 0,
        Drive::Repoll(n) => 40 + n as u64,
        Drive::Once => 1,
        Drive::Yields(n) => 10 + n as u64,
        Drive::Wakes(n) => 20 + n as u64,
        Drive::Abandon(n) => 30 + n as u64,
    }
}

fn take_fail(ctx: &mut Ctx, logs: &[Vec<LogEv>], names: &[&str]) -> Option<Violation> {
    if ctx.fails.is_empty() {
        return None;
    }
    // the other failed predicates of this run stay in `ctx.fails`: `run_workload` reports them as well
    let f: Fail = ctx.fails.remove(0);
    Some(Violation { prop: f.prop, pred: f.pred, detail: f.detail, log: dump(logs, names) })
}

// ------------------------------------------------------------------ semaphore (C05, C06)
/// A semaphore flavour (borrowed reference or shared handle) as the threaded workload sees it.
pub trait SemOps: Send + Sync {
    type Rel: SemRel;
    type Fut: Future<Output = Self::Rel>;
    fn acquire(&self, k: usize) -> Self::Fut;
    fn try_acquire(&self, k: usize) -> Option<Self::Rel>;
    fn release(&self, k: usize);
    fn permits(&self) -> usize;
    fn inspect(&self, v: &mut dyn FnMut(Visit) -> bool);
    /// how often (one in ..) a completed acquisition is given back through disarm() + release()
    const MANUAL_RELEASE_ONE_IN: usize;
}
pub trait SemRel {
    fn disarm(&mut self) -> usize;
}
impl<'a, M: RawMutex> SemRel for futures_intrusive::sync::GenericSemaphoreReleaser<'a, M> {
    fn disarm(&mut self) -> usize {
        futures_intrusive::sync::GenericSemaphoreReleaser::disarm(self)
    }
}
impl<M: RawMutex> SemRel for futures_intrusive::sync::GenericSharedSemaphoreReleaser<M> {
    fn disarm(&mut self) -> usize {
        futures_intrusive::sync::GenericSharedSemaphoreReleaser::disarm(self)
    }
}
impl<'a, M: RawMutex + Send + Sync> SemOps for &'a GenericSemaphore<M> {
    type Rel = futures_intrusive::sync::GenericSemaphoreReleaser<'a, M>;
    type Fut = futures_intrusive::sync::GenericSemaphoreAcquireFuture<'a, M>;
    const MANUAL_RELEASE_ONE_IN: usize = 8;
    fn acquire(&self, k: usize) -> Self::Fut {
        GenericSemaphore::acquire(*self, k)
    }
    fn try_acquire(&self, k: usize) -> Option<Self::Rel> {
        GenericSemaphore::try_acquire(*self, k)
    }
    fn release(&self, k: usize) {
        GenericSemaphore::release(*self, k)
    }
    fn permits(&self) -> usize {
        GenericSemaphore::permits(*self)
    }
    fn inspect(&self, v: &mut dyn FnMut(Visit) -> bool) {
        self.verif_inspect(v)
    }
}
impl<M: RawMutex + Send + Sync> SemOps for futures_intrusive::sync::GenericSharedSemaphore<M> {
    type Rel = futures_intrusive::sync::GenericSharedSemaphoreReleaser<M>;
    type Fut = futures_intrusive::sync::GenericSharedSemaphoreAcquireFuture<M>;
    // the shared flavour has its own release(): exercised much more often
    const MANUAL_RELEASE_ONE_IN: usize = 2;
    fn acquire(&self, k: usize) -> Self::Fut {
        futures_intrusive::sync::GenericSharedSemaphore::acquire(self, k)
    }
    fn try_acquire(&self, k: usize) -> Option<Self::Rel> {
        futures_intrusive::sync::GenericSharedSemaphore::try_acquire(self, k)
    }
    fn release(&self, k: usize) {
        futures_intrusive::sync::GenericSharedSemaphore::release(self, k)
    }
    fn permits(&self) -> usize {
        futures_intrusive::sync::GenericSharedSemaphore::permits(self)
    }
    fn inspect(&self, v: &mut dyn FnMut(Visit) -> bool) {
        self.verif_inspect(v)
    }
}

pub fn wl_semaphore<M: RawMutex + Send + Sync + 'static>(seed: u64, n: usize, rounds: usize, fair: bool, total: usize, shared: bool, ctx: &mut Ctx, st: &mut ConcStats) -> Option<Violation> {
    if shared {
        let sem = futures_intrusive::sync::GenericSharedSemaphore::<M>::new(fair, total);
        wl_semaphore_inner(sem, seed, n, rounds, fair, total, ctx, st)
    } else {
        let sem: GenericSemaphore<M> = GenericSemaphore::new(fair, total);
        wl_semaphore_inner(&sem, seed, n, rounds, fair, total, ctx, st)
    }
}

fn wl_semaphore_inner<S: SemOps>(sem: S, seed: u64, n: usize, rounds: usize, fair: bool, total: usize, ctx: &mut Ctx, st: &mut ConcStats) -> Option<Violation> {
    let sem = &sem;
    let in_use = AtomicU64::new(0);
    let over = AtomicU64::new(0);
    let cancelled = AtomicU64::new(0);
    let completed = AtomicU64::new(0);
    let run = Run::new(n);
    let fair_recs = std::sync::Mutex::new(Vec::<FairRec>::new());
    let mut logs: Vec<Vec<LogEv>> = vec![];
    let mut verdict = Verdict::Finished;
    let mut permits_at_deadlock = 0usize;
    let mut smallest_parked = u64::MAX;
    std::thread::scope(|s| {
        let mut hs = vec![];
        for i in 0..n {
            let (sem, in_use, over, cancelled, completed, fair_recs, run) = (&sem, &in_use, &over, &cancelled, &completed, &fair_recs, run.clone());
            hs.push(s.spawn(move || {
                enter_worker(&run, i, seed ^ (i as u64 + 1).wrapping_mul(0x9E37_79B9));
                let mut rng = Rng::new(seed.wrapping_mul(37).wrapping_add(i as u64));
                let mut lg: Vec<LogEv> = Vec::with_capacity(rounds + 2);
                let mut fr: Vec<FairRec> = Vec::with_capacity(rounds + 2);
                let hold = |k: usize| {
                    let now = in_use.fetch_add(k as u64, Relaxed) + k as u64;
                    if now > total as u64 {
                        over.fetch_add(1, Relaxed);
                    }
                    std::thread::yield_now();
                    in_use.fetch_sub(k as u64, Relaxed);
                };
                for r in 0..=rounds {
                    if run.abort.load(Relaxed) {
                        break;
                    }
                    let last = r == rounds;
                    // every fourth run is heavy on the synchronous path (try_acquire racing the queue)
                    let c = if seed % 4 == 0 && rng.below(2) == 0 { 0 } else { rng.below(10) };
                    if !last && c == 0 {
                        let k = rng.below(total + 1);
                        let c0 = run.now();
                        let got = sem.try_acquire(k);
                        let c1 = run.now();
                        fr.push(FairRec { task: i as u16, first_call: c0, reg_ret: 0, end_call: c0, end_ret: c1, ok: got.is_some(), n: k as u64, rel_call: 0 });
                        log!(lg, run, i, 0u8, k, {
                            match got {
                                Some(rel) => {
                                    hold(k);
                                    fr.last_mut().unwrap().rel_call = run.now();
                                    drop(rel);
                                    ((), 1)
                                }
                                None => ((), 0),
                            }
                        });
                        continue;
                    }
                    // over-sized requests can never be satisfied: they always time out by logical steps.
                    // They are what turns a stranded smaller request into a permanent, detectable deadlock.
                    let oversized = !last && c == 1;
                    let k = if oversized { total + 1 } else { 1 + rng.below(total) };
                    let how = if oversized {
                        if rng.below(2) == 0 { Drive::Yields(2) } else { Drive::Wakes(1) }
                    } else if last && i % 2 == 0 {
                        if rng.below(3) == 0 { Drive::Repoll(1) } else { Drive::Block }
                    } else {
                        pick_drive(&mut rng)
                    };
                    if matches!(how, Drive::Wakes(_)) && oversized {
                        // an over-sized request is never woken: use yields instead
                    }
                    let how = if oversized { Drive::Yields(1 + rng.below(3) as u32) } else { how };
                    log!(lg, run, i, 1u8, (k as u64) << 8 | how_code(how), {
                        let o = drive(&run, i, sem.acquire(k), how, k as u64);
                        drive_stats(cancelled, completed, &o);
                        fr.push(fair_rec(&run, i, matches!(o, Outcome::Ready(_)), k as u64));
                        match o {
                            Outcome::Ready(mut rel) => {
                                hold(k);
                                fr.last_mut().unwrap().rel_call = run.now();
                                if rng.below(S::MANUAL_RELEASE_ONE_IN) == 0 {
                                    // manual release through disarm
                                    let d = rel.disarm();
                                    drop(rel);
                                    sem.release(d);
                                } else {
                                    drop(rel);
                                }
                                ((), 1)
                            }
                            Outcome::Cancelled => ((), 0),
                            Outcome::Aborted => ((), 9),
                        }
                    });
                }
                fair_recs.lock().unwrap().extend(fr);
                leave_worker(&run, i);
                lg
            }));
        }
        verdict = supervise(&run, wall_limit());
        if verdict != Verdict::Finished {
            permits_at_deadlock = sem.permits();
            for t in &run.tasks {
                if t.state.load(Acquire) == PARKED {
                    smallest_parked = smallest_parked.min(t.waiting_for.load(Relaxed));
                }
            }
            abort_all(&run);
        }
        for h in hs {
            logs.push(joined(h));
        }
    });
    st.absorb(&run, &logs);
    st.cancelled += cancelled.load(Relaxed);
    st.completed += completed.load(Relaxed);
    let names = ["try_acquire", "acquire"];
    queues_empty(ctx, "semaphore", &mut |v| sem.inspect(v));
    let ov = over.load(Relaxed);
    ctx.check("C05", "permits-in-use-never-exceed-total", true, ov == 0, || format!("{} times more than {} permits were held at once", ov, total));
    let p = sem.permits();
    ctx.check("C05", "all-permits-home-after-the-run", true, p == total, || format!("permits()={} after all releasers are gone, total {}", p, total));
    if fair {
        let recs = fair_recs.lock().unwrap();
        let v = fairness_violation(&recs, total == 1 && over.load(Relaxed) == 0);
        ctx.check("C07", "no-request-overtakes-one-that-was-queued-before-it-started", recs.iter().any(|r| r.reg_ret > 0 && r.n > 0), v.is_none(), || v.clone().unwrap());
    }
    match verdict {
        Verdict::Finished => ctx.check("C06", "acquire-timeout-release-tasks-terminate", true, true, String::new),
        Verdict::AllParked => {
            st.deadlock_checks += 1;
            let fits = smallest_parked <= permits_at_deadlock as u64;
            ctx.check("C06", "acquire-timeout-release-tasks-terminate", true, !fits, || {
                format!("all unfinished tasks are parked with clear wake tokens, permits()={} and the smallest parked request is {}: lost wake-up", permits_at_deadlock, smallest_parked)
            });
            if !fits {
                return Some(Violation { prop: "harness", pred: "all-parked-but-resource-unavailable", detail: format!("permits {} smallest {}", permits_at_deadlock, smallest_parked), log: dump(&logs, &names) });
            }
        }
        Verdict::Watchdog => {
            st.watchdogs += 1;
            return Some(Violation { prop: "harness", pred: "watchdog", detail: "wall clock watchdog".into(), log: String::new() });
        }
    }
    take_fail(ctx, &logs, &names)
}

// ------------------------------------------------------------------ mpmc (C08, C09, C10)
/// Sender side of a channel flavour (borrowed channel reference or shared handle).
pub trait TxOps: Send {
    type SF: Future<Output = Result<(), futures_intrusive::channel::ChannelSendError<u64>>>;
    fn send(&self, v: u64) -> Self::SF;
    fn try_send(&self, v: u64) -> Result<(), TrySendError<u64>>;
    fn cancel(f: Pin<&mut Self::SF>) -> Option<u64>;
    /// The producer is done. `last` = it is the last producer (borrowed flavour closes explicitly;
    /// the shared flavour closes by dropping the last sender handle).
    fn finish(self, last: bool);
}
pub trait RxOps: Send {
    type RF: Future<Output = Option<u64>>;
    type ST: futures_core::Stream<Item = u64> + futures_core::stream::FusedStream;
    fn receive(&self) -> Self::RF;
    fn try_receive(&self) -> Result<u64, TryReceiveError>;
    /// turns the receiving end into a stream (the shared flavour consumes the handle)
    fn into_stream(self) -> Self::ST;
}

/// `stream.next()` without the futures crate: one item of a pinned stream as a future.
pub struct NextItem<'s, S>(pub Pin<&'s mut S>);
impl<'s, S: futures_core::Stream> Future for NextItem<'s, S> {
    type Output = Option<S::Item>;
    fn poll(mut self: Pin<&mut Self>, cx: &mut Context<'_>) -> Poll<Self::Output> {
        self.0.as_mut().poll_next(cx)
    }
}

pub struct BorrowedEnd<'a, M: RawMutex, A: RingBuf<Item = u64>>(&'a GenericChannel<M, u64, A>);
impl<'a, M: RawMutex + Sync, A: RingBuf<Item = u64> + Send> TxOps for BorrowedEnd<'a, M, A> {
    type SF = futures_intrusive::channel::ChannelSendFuture<'a, M, u64>;
    fn send(&self, v: u64) -> Self::SF {
        self.0.send(v)
    }
    fn try_send(&self, v: u64) -> Result<(), TrySendError<u64>> {
        self.0.try_send(v)
    }
    fn cancel(f: Pin<&mut Self::SF>) -> Option<u64> {
        // Safety: cancel does not move the future
        unsafe { Pin::get_unchecked_mut(f) }.cancel()
    }
    fn finish(self, last: bool) {
        if last {
            self.0.close();
        }
    }
}
impl<'a, M: RawMutex + Sync, A: RingBuf<Item = u64> + Send> RxOps for BorrowedEnd<'a, M, A> {
    type RF = futures_intrusive::channel::ChannelReceiveFuture<'a, M, u64>;
    type ST = futures_intrusive::channel::ChannelStream<'a, M, u64, A>;
    fn receive(&self) -> Self::RF {
        self.0.receive()
    }
    fn try_receive(&self) -> Result<u64, TryReceiveError> {
        self.0.try_receive()
    }
    fn into_stream(self) -> Self::ST {
        self.0.stream()
    }
}
impl<M: RawMutex + Send + Sync + 'static, A: RingBuf<Item = u64> + Send + 'static> TxOps for futures_intrusive::channel::shared::GenericSender<M, u64, A> {
    type SF = futures_intrusive::channel::shared::ChannelSendFuture<M, u64>;
    fn send(&self, v: u64) -> Self::SF {
        futures_intrusive::channel::shared::GenericSender::send(self, v)
    }
    fn try_send(&self, v: u64) -> Result<(), TrySendError<u64>> {
        futures_intrusive::channel::shared::GenericSender::try_send(self, v)
    }
    fn cancel(f: Pin<&mut Self::SF>) -> Option<u64> {
        // Safety: cancel does not move the future
        unsafe { Pin::get_unchecked_mut(f) }.cancel()
    }
    fn finish(self, _last: bool) {
        drop(self) // the last sender handle closes the channel
    }
}
impl<M: RawMutex + Send + Sync + 'static, A: RingBuf<Item = u64> + Send + 'static> RxOps for futures_intrusive::channel::shared::GenericReceiver<M, u64, A> {
    type RF = futures_intrusive::channel::shared::ChannelReceiveFuture<M, u64>;
    type ST = futures_intrusive::channel::shared::SharedStream<M, u64, A>;
    fn receive(&self) -> Self::RF {
        futures_intrusive::channel::shared::GenericReceiver::receive(self)
    }
    fn try_receive(&self) -> Result<u64, TryReceiveError> {
        futures_intrusive::channel::shared::GenericReceiver::try_receive(self)
    }
    fn into_stream(self) -> Self::ST {
        futures_intrusive::channel::shared::GenericReceiver::into_stream(self)
    }
}

pub fn wl_mpmc<M: RawMutex + Send + Sync + 'static, A: RingBuf<Item = u64> + Send + 'static>(
    seed: u64,
    producers: usize,
    consumers: usize,
    per_producer: usize,
    cap: usize,
    shared: bool,
    ctx: &mut Ctx,
    st: &mut ConcStats,
) -> Option<Violation> {
    if shared {
        let (tx, rx) = generic_channel::<M, u64, A>(cap);
        let mut txs = vec![];
        let mut rxs = vec![];
        for _ in 1..producers {
            txs.push(tx.clone());
        }
        txs.push(tx);
        for _ in 0..consumers {
            rxs.push(rx.clone());
        }
        // `rx` stays with the supervisor for inspection only (it never receives)
        let r = wl_mpmc_inner(seed, txs, rxs, &|v| rx.verif_channel().verif_inspect(v), per_producer, cap, ctx, st);
        drop(rx);
        r
    } else {
        let ch: GenericChannel<M, u64, A> = GenericChannel::with_capacity(cap);
        let txs: Vec<BorrowedEnd<M, A>> = (0..producers).map(|_| BorrowedEnd(&ch)).collect();
        let rxs: Vec<BorrowedEnd<M, A>> = (0..consumers).map(|_| BorrowedEnd(&ch)).collect();
        wl_mpmc_inner(seed, txs, rxs, &|v| ch.verif_inspect(v), per_producer, cap, ctx, st)
    }
}

fn wl_mpmc_inner<TX: TxOps, RX: RxOps>(
    seed: u64,
    mut txs: Vec<TX>,
    mut rxs: Vec<RX>,
    inspect: &(dyn Fn(&mut dyn FnMut(Visit) -> bool) + Sync),
    per_producer: usize,
    cap: usize,
    ctx: &mut Ctx,
    st: &mut ConcStats,
) -> Option<Violation> {
    let producers = txs.len();
    let consumers = rxs.len();
    let n = producers + consumers;
    let run = Run::new(n);
    let producers_left = AtomicU64::new(producers as u64);
    let cancelled = AtomicU64::new(0);
    let completed = AtomicU64::new(0);
    let stream_bad = AtomicU64::new(0);
    // tag -> return stamp of the first poll of its send future if that poll was Pending (the send took effect then)
    let parked_at = std::sync::Mutex::new(HashMap::<u64, u64>::new());
    let mut logs: Vec<Vec<LogEv>> = vec![];
    let mut verdict = Verdict::Finished;
    // (buffered, parked receiver tasks, parked sender tasks, closed)
    let mut dl = (0u64, 0usize, 0usize, false);
    std::thread::scope(|s| {
        let mut hs = vec![];
        for i in 0..n {
            let (producers_left, cancelled, completed, stream_bad, parked_at, run) = (&producers_left, &cancelled, &completed, &stream_bad, &parked_at, run.clone());
            let tx = if i < producers { txs.pop() } else { None };
            let rx = if i >= producers { rxs.pop() } else { None };
            hs.push(s.spawn(move || {
                enter_worker(&run, i, seed ^ (i as u64 + 1).wrapping_mul(0x9E37_79B9));
                let mut rng = Rng::new(seed.wrapping_mul(41).wrapping_add(i as u64));
                let mut lg: Vec<LogEv> = Vec::with_capacity(per_producer * 4 + 8);
                if let Some(tx) = tx {
                    // op 0 = try_send, 1 = send; res 1 = took effect, 0 = handed back, 2 = closed, 77 = foreign value
                    let mut seq = 0u64;
                    while (seq as usize) < per_producer && !run.abort.load(Relaxed) {
                        let tag = ((i as u64) << 32) | seq;
                        // every fourth run is heavy on try_send (producers racing for the last free slot)
                        if cap > 0 && (rng.below(4) == 0 || (seed % 4 == 0 && rng.below(3) != 0)) {
                            let ok = log!(lg, run, i, 0u8, tag, {
                                match tx.try_send(tag) {
                                    Ok(()) => (true, 1),
                                    Err(TrySendError::Full(v)) => (false, if v == tag { 0 } else { 77 }),
                                    Err(TrySendError::Closed(v)) => (false, if v == tag { 2 } else { 77 }),
                                }
                            });
                            if ok {
                                seq += 1;
                            } else {
                                std::thread::yield_now();
                            }
                            continue;
                        }
                        let how = pick_drive(&mut rng);
                        // a send that is given up is cancelled explicitly, so that the ledger stays exact:
                        // cancel() hands the value back unless it has already been taken
                        let mut reg = 0u64;
                        let ok = log!(lg, run, i, 1u8, tag, {
                            let mut fut = Box::pin(tx.send(tag));
                            let o = drive_pinned(&run, i, fut.as_mut(), how, 2);
                            reg = run.tasks[i].t_reg_ret.load(Relaxed);
                            match o {
                                Outcome::Ready(Ok(())) => {
                                    completed.fetch_add(1, Relaxed);
                                    (true, 1)
                                }
                                Outcome::Ready(Err(e)) => (false, if e.0 == tag { 2 } else { 77 }),
                                Outcome::Cancelled | Outcome::Aborted => {
                                    cancelled.fetch_add(1, Relaxed);
                                    match TX::cancel(fut.as_mut()) {
                                        Some(v) => (false, if v == tag { 0 } else { 77 }),
                                        None => (true, 1), // value had already been taken: the send took effect
                                    }
                                }
                            }
                        });
                        if ok {
                            // this attempt is the one that took effect (a cancelled attempt hands the value back
                            // and the same tag is sent again later)
                            if reg > 0 {
                                parked_at.lock().unwrap().insert(tag, reg);
                            }
                            seq += 1;
                        }
                    }
                    let last = producers_left.fetch_sub(1, AcqRel) == 1;
                    log!(lg, run, i, 4u8, last as u64, {
                        tx.finish(last);
                        ((), 0)
                    });
                } else if let Some(rx) = rx {
                    // consumers: op 2 = receive, 3 = try_receive (res = tag+1, 0 = none/abandoned).
                    // The first consumer is steady (blocking receives until None). The others are flaky:
                    // a bounded number of attempts with random cancellation, then they leave - possibly
                    // right after abandoning a notified receive, so that nobody is left to rescue a strand.
                    let steady = i == producers;
                    if steady && seed % 3 == 0 {
                        // The steady consumer reads through a stream in every third run (op 5): items until the
                        // stream ends; afterwards it must report terminated and keep returning None (C17).
                        use futures_core::stream::{FusedStream, Stream};
                        let mut stream = Box::pin(rx.into_stream());
                        let mut ended = false;
                        while !run.abort.load(Relaxed) {
                            let how = if rng.below(3) == 0 { Drive::Repoll(1) } else { Drive::Block };
                            let term_before = stream.is_terminated();
                            let done = log!(lg, run, i, 5u8, how_code(how), {
                                let o = drive(&run, i, NextItem(stream.as_mut()), how, 1);
                                drive_stats(cancelled, completed, &o);
                                match o {
                                    Outcome::Ready(Some(v)) => (false, v + 1),
                                    Outcome::Ready(None) => {
                                        ended = true;
                                        (true, 0)
                                    }
                                    Outcome::Cancelled => (false, 0),
                                    Outcome::Aborted => (true, 0),
                                }
                            });
                            if term_before {
                                stream_bad.fetch_add(1, Relaxed);
                            }
                            if done {
                                break;
                            }
                        }
                        if ended {
                            // terminated exactly from the first None on, and None forever
                            let w = crate::wakers::waker(1);
                            let mut cx = Context::from_waker(&w);
                            let again = stream.as_mut().poll_next(&mut cx);
                            if !stream.is_terminated() || !matches!(again, Poll::Ready(None)) {
                                stream_bad.fetch_add(1, Relaxed);
                            }
                        }
                        drop(stream);
                        leave_worker(&run, i);
                        return lg;
                    }
                    let mut attempts = 2 + rng.below(8);
                    loop {
                        if run.abort.load(Relaxed) {
                            break;
                        }
                        if !steady {
                            if attempts == 0 {
                                break;
                            }
                            attempts -= 1;
                        }
                        if !steady && rng.below(5) == 0 {
                            let r = log!(lg, run, i, 3u8, 0u64, {
                                match rx.try_receive() {
                                    Ok(v) => (Some(true), v + 1),
                                    Err(TryReceiveError::Empty) => (Some(false), 0),
                                    Err(TryReceiveError::Closed) => (None, 0),
                                }
                            });
                            match r {
                                None => break,
                                Some(false) => std::thread::yield_now(),
                                _ => {}
                            }
                            continue;
                        }
                        let how = if steady { if rng.below(3) == 0 { Drive::Repoll(1) } else { Drive::Block } } else { pick_drive(&mut rng) };
                        let done = log!(lg, run, i, 2u8, how_code(how), {
                            let o = drive(&run, i, rx.receive(), how, 1);
                            drive_stats(cancelled, completed, &o);
                            match o {
                                Outcome::Ready(Some(v)) => (false, v + 1),
                                Outcome::Ready(None) => (true, 0),
                                Outcome::Cancelled => (false, 0),
                                Outcome::Aborted => (true, 0),
                            }
                        });
                        if done {
                            break;
                        }
                    }
                    drop(rx);
                }
                leave_worker(&run, i);
                lg
            }));
        }
        verdict = supervise(&run, wall_limit());
        if verdict != Verdict::Finished {
            let mut prim = futures_intrusive::verif::PrimInfo::default();
            inspect(&mut |v| match v {
                Visit::Prim(p) => {
                    prim = p;
                    true
                }
                Visit::Addr(..) => false, // scalar state only
                _ => true,
            });
            // what the parked tasks wait for (1 = receive, 2 = send); a notified but never woken
            // receiver is parked without being in the queue, so tasks are counted, not queue entries
            let (mut rp, mut sp) = (0usize, 0usize);
            for t in &run.tasks {
                if t.state.load(Acquire) == PARKED {
                    match t.waiting_for.load(Relaxed) {
                        1 => rp += 1,
                        2 => sp += 1,
                        _ => {}
                    }
                }
            }
            dl = (prim.count, rp, sp, prim.flag);
            abort_all(&run);
        }
        for h in hs {
            logs.push(joined(h));
        }
    });
    st.absorb(&run, &logs);
    st.cancelled += cancelled.load(Relaxed);
    st.completed += completed.load(Relaxed);
    let names = ["try_send", "send", "receive", "try_receive", "finish-producer", "stream-next"];
    queues_empty(ctx, "mpmc channel", &mut |v| inspect(v));
    let sb = stream_bad.load(Relaxed);
    ctx.check("C17", "stream-terminated-exactly-after-none-and-none-forever", seed % 3 == 0, sb == 0, || {
        format!("{} times the stream reported terminated before it had returned None, or did not stay terminated / returned something after None", sb)
    });
    // ledger
    let mut sent: HashMap<u64, u64> = HashMap::new(); // tag -> ret stamp of the send
    let mut sent_call: HashMap<u64, u64> = HashMap::new();
    let mut recv: HashMap<u64, (u64, u64, u16)> = HashMap::new(); // tag -> (call, ret, consumer)
    let mut dup = vec![];
    let mut bad_back = 0;
    for e in logs.iter().flatten() {
        match e.op {
            0 | 1 => {
                if e.res == 1 {
                    sent.insert(e.arg, e.ret);
                    sent_call.insert(e.arg, e.call);
                }
                if e.res == 77 {
                    bad_back += 1;
                }
            }
            2 | 3 | 5 => {
                if e.res > 0 {
                    if recv.insert(e.res - 1, (e.call, e.ret, e.task)).is_some() {
                        dup.push(e.res - 1);
                    }
                }
            }
            _ => {}
        }
    }
    let finished = verdict == Verdict::Finished;
    ctx.check("C08", "no-value-received-twice", !recv.is_empty(), dup.is_empty(), || format!("tags received twice: {:?}", dup));
    ctx.check("C08", "errors-hand-back-the-callers-own-value", true, bad_back == 0, || format!("{} send errors returned a foreign value", bad_back));
    let phantom: Vec<u64> = recv.keys().filter(|t| !sent.contains_key(t)).copied().collect();
    ctx.check("C08", "received-values-were-sent-and-not-handed-back", !recv.is_empty(), phantom.is_empty(), || format!("tags received although their send was handed back / never completed: {:?}", phantom));
    if finished {
        // closed after all producers finished, and the steady consumer drained to None: nothing may be lost
        let lost: Vec<u64> = sent.keys().filter(|t| !recv.contains_key(t)).copied().collect();
        ctx.check("C08", "every-accepted-value-is-received-before-none", !sent.is_empty(), lost.is_empty(), || format!("tags accepted but never received although the steady consumer drained the closed channel: {:?}", lost));
    }
    // C09: per-producer order per consumer, and the queue-linearizability pair condition
    let mut by_cons: HashMap<(u16, u64), Vec<(u64, u64)>> = HashMap::new();
    for (tag, (_, ret, c)) in &recv {
        by_cons.entry((*c, tag >> 32)).or_default().push((*ret, tag & 0xffff_ffff));
    }
    let mut order_bad = None;
    for (k, v) in by_cons.iter_mut() {
        v.sort();
        if !v.windows(2).all(|w| w[0].1 < w[1].1) {
            order_bad = Some(format!("consumer {} saw producer {} out of order: {:?}", k.0, k.1, v.iter().map(|x| x.1).collect::<Vec<_>>()));
        }
    }
    ctx.check("C09", "per-producer-order-survives-every-schedule", !recv.is_empty(), order_bad.is_none(), || order_bad.clone().unwrap());
    let mut pair_bad = None;
    let tags: Vec<u64> = recv.keys().filter(|t| sent.contains_key(t)).copied().collect();
    // a send took effect by the time its call returned - or, if its future had to wait, by the time the
    // first poll returned Pending (C09: "the order in which their sends took effect (first poll of the send
    // future, or the try_send call)")
    let parked_at = parked_at.lock().unwrap();
    let effect_by = |t: &u64| parked_at.get(t).copied().unwrap_or(sent[t]);
    if tags.len() <= 400 {
        for a in &tags {
            for b in &tags {
                if a != b && effect_by(a) < sent_call[b] && recv[b].1 < recv[a].0 {
                    pair_bad = Some(format!("send({:#x}) took effect (stamp {}) before send({:#x}) was called ({}), but {:#x} was received strictly before {:#x}", a, effect_by(a), b, sent_call[b], b, a));
                }
            }
        }
    }
    ctx.check("C09", "fifo-linearizability-pair-condition", tags.len() > 1, pair_bad.is_none(), || pair_bad.clone().unwrap());
    // C09 capacity: a value is inside the channel from the return of its (completed) send to the call of the
    // receive that yields it; more than `cap` such intervals never overlap (cap 0: a send completes only after a
    // receiver has taken the value, so the interval is empty)
    let mut evs: Vec<(u64, i64)> = vec![];
    for (t, ret) in &sent {
        evs.push((*ret, 1));
        if let Some(r) = recv.get(t) {
            evs.push((r.0, -1));
        }
    }
    evs.sort();
    let (mut inside, mut peak, mut peak_at) = (0i64, 0i64, 0u64);
    for (t, d) in &evs {
        inside += d;
        if inside > peak {
            peak = inside;
            peak_at = *t;
        }
    }
    ctx.check("C09", "accepted-but-unreceived-values-never-exceed-capacity", !sent.is_empty(), peak <= cap as i64, || {
        format!("at stamp {} {} sends had completed whose values no receive had been called for yet; capacity {}", peak_at, peak, cap)
    });
    match verdict {
        Verdict::Finished => ctx.check("C10", "producers-and-consumers-with-abandoned-receives-terminate", true, true, String::new),
        Verdict::AllParked => {
            st.deadlock_checks += 1;
            let (count, rp, sp, closed) = dl;
            let recv_stuck = rp > 0 && (count > 0 || (cap == 0 && sp > 0) || closed);
            let send_stuck = sp > 0 && ((cap > 0 && (count as usize) < cap) || closed || (cap == 0 && rp > 0));
            ctx.check("C10", "producers-and-consumers-with-abandoned-receives-terminate", true, !(recv_stuck || send_stuck), || {
                format!("all unfinished tasks parked with clear wake tokens: buffer {} of {}, {} tasks wait to receive, {} wait to send, closed={}: lost wake-up", count, cap, rp, sp, closed)
            });
            if !(recv_stuck || send_stuck) {
                return Some(Violation { prop: "harness", pred: "all-parked-but-resource-unavailable", detail: format!("{:?}", dl), log: dump(&logs, &names) });
            }
        }
        Verdict::Watchdog => {
            st.watchdogs += 1;
            return Some(Violation { prop: "harness", pred: "watchdog", detail: "wall clock watchdog".into(), log: String::new() });
        }
    }
    take_fail(ctx, &logs, &names)
}

/// Like `drive` for an already pinned future that must survive a cancellation
/// (so that `cancel()` can be called on it).
pub fn drive_pinned<F: Future>(run: &Arc<Run>, i: usize, mut fut: Pin<&mut F>, how: Drive, waiting_for: u64) -> Outcome<F::Output> {
    struct Wrap<'a, F: Future>(Pin<&'a mut F>);
    impl<'a, F: Future> Future for Wrap<'a, F> {
        type Output = F::Output;
        fn poll(mut self: Pin<&mut Self>, cx: &mut Context<'_>) -> Poll<F::Output> {
            self.0.as_mut().poll(cx)
        }
    }
    drive(run, i, Wrap(fut.as_mut()), how, waiting_for)
}

// ------------------------------------------------------------------ event, linearizability of short histories (C14)
/// One point of an operation in the linearization search: it must be placed inside [lo, hi] (stamps).
#[derive(Clone, Copy, Debug)]
struct LinEv {
    lo: u64,
    hi: u64,
    /// 0 set, 1 reset, 2 is_set -> arg, 3 single poll of a fresh wait future -> arg (1 = Ready),
    /// 4 open of a blocking wait (its first poll returned Pending), 5 close of that wait (it completed)
    kind: u8,
    arg: u64,
    /// index of the blocking wait (kinds 4, 5)
    w: u8,
}

/// Is there an order of the points, each inside its window and respecting "a before b if a.hi < b.lo", under
/// which a sequential manual reset event gives the observed results? State: is_set, and per open blocking wait
/// whether the event has been set at some instant since it was opened (the latch).
fn event_history_linearizable(evs: &[LinEv], initial: bool) -> bool {
    let n = evs.len();
    if n > 20 {
        return true; // not searched (never produced by the workload)
    }
    let mut seen: HashSet<(u32, bool, u32)> = HashSet::new();
    // (chosen mask, state, latched mask)
    let mut stack: Vec<(u32, bool, u32)> = vec![(0, initial, 0)];
    let full = (1u32 << n) - 1;
    while let Some((mask, s, latched)) = stack.pop() {
        if mask == full {
            return true;
        }
        if !seen.insert((mask, s, latched)) {
            continue;
        }
        // the smallest upper bound among the unchosen points: nothing whose window starts after it may come first
        let min_hi = (0..n).filter(|i| mask & (1 << i) == 0).map(|i| evs[i].hi).min().unwrap();
        for i in 0..n {
            if mask & (1 << i) != 0 || evs[i].lo > min_hi {
                continue;
            }
            let e = evs[i];
            // the close of a wait comes after its open
            if e.kind == 5 {
                let open_chosen = (0..n).any(|j| evs[j].kind == 4 && evs[j].w == e.w && mask & (1 << j) != 0);
                if !open_chosen {
                    continue;
                }
            }
            let (mut s2, mut l2) = (s, latched);
            let ok = match e.kind {
                0 => {
                    s2 = true;
                    // every wait that is open right now is latched
                    for j in 0..n {
                        if evs[j].kind == 4 && mask & (1 << j) != 0 {
                            l2 |= 1 << evs[j].w;
                        }
                    }
                    true
                }
                1 => {
                    s2 = false;
                    true
                }
                2 | 3 => (e.arg == 1) == s,
                4 => {
                    // the first poll returned Pending: the event was not set at that instant
                    if s {
                        false
                    } else {
                        l2 &= !(1 << e.w);
                        true
                    }
                }
                _ => latched & (1 << e.w) != 0,
            };
            if ok {
                stack.push((mask | (1 << i), s2, l2));
            }
        }
    }
    false
}

/// Many short histories of set / reset / is_set / single polls / blocking waits on 3-4 threads, each checked for
/// linearizability against the sequential manual reset event (with the latch: a wait completes iff the event was
/// set at some instant since its first poll). A final set() by the last thread releases every blocking wait.
pub fn wl_event_lin<M: RawMutex + Send + Sync + 'static>(seed: u64, n: usize, ctx: &mut Ctx, st: &mut ConcStats) -> Option<Violation> {
    let n = n.clamp(3, 4);
    let mut r0 = Rng::new(seed ^ 0xE7E7);
    let initial = r0.below(2) == 0;
    let ev: GenericManualResetEvent<M> = GenericManualResetEvent::new(initial);
    let run = Run::new(n);
    let points = std::sync::Mutex::new(Vec::<LinEv>::new());
    let skipped = std::sync::Mutex::new(Vec::<String>::new());
    let waits = AtomicU64::new(0);
    let others_left = AtomicU64::new((n - 1) as u64);
    let mut logs: Vec<Vec<LogEv>> = vec![];
    let mut verdict = Verdict::Finished;
    std::thread::scope(|s| {
        let mut hs = vec![];
        for i in 0..n {
            let (ev, points, skipped, waits, others_left, run) = (&ev, &points, &skipped, &waits, &others_left, run.clone());
            hs.push(s.spawn(move || {
                enter_worker(&run, i, seed ^ (i as u64 + 1).wrapping_mul(0x9E37_79B9));
                let mut rng = Rng::new(seed.wrapping_mul(71).wrapping_add(i as u64));
                let mut lg: Vec<LogEv> = Vec::with_capacity(8);
                let mut mine: Vec<LinEv> = Vec::with_capacity(8);
                let ops = 2 + rng.below(2);
                for _ in 0..ops {
                    if run.abort.load(Relaxed) {
                        break;
                    }
                    // (thread 0 has the last word: it never blocks itself)
                    match rng.below(if i == 0 { 5 } else { 7 }) {
                        0 | 1 => {
                            let c = run.now();
                            ev.set();
                            mine.push(LinEv { lo: c, hi: run.now(), kind: 0, arg: 0, w: 0 });
                        }
                        2 => {
                            let c = run.now();
                            ev.reset();
                            mine.push(LinEv { lo: c, hi: run.now(), kind: 1, arg: 0, w: 0 });
                        }
                        3 => {
                            let c = run.now();
                            let v = ev.is_set();
                            mine.push(LinEv { lo: c, hi: run.now(), kind: 2, arg: v as u64, w: 0 });
                        }
                        4 => {
                            // one poll of a fresh future, dropped at once if Pending
                            let o = drive(&run, i, ev.wait(), Drive::Once, 1);
                            let c = &run.tasks[i];
                            mine.push(LinEv { lo: c.t_first_call.load(Relaxed), hi: if matches!(o, Outcome::Ready(_)) { c.t_end_ret.load(Relaxed) } else { c.t_reg_ret.load(Relaxed) }, kind: 3, arg: matches!(o, Outcome::Ready(_)) as u64, w: 0 });
                        }
                        _ => {
                            let w = waits.fetch_add(1, Relaxed) as u8;
                            let how = if rng.below(2) == 0 { Drive::Repoll(1) } else { Drive::Block };
                            let o = drive(&run, i, ev.wait(), how, 1);
                            let c = &run.tasks[i];
                            if let Outcome::Ready(()) = o {
                                let reg = c.t_reg_ret.load(Relaxed);
                                if reg == 0 {
                                    // completed at its first poll: the event was set at that instant
                                    mine.push(LinEv { lo: c.t_first_call.load(Relaxed), hi: c.t_end_ret.load(Relaxed), kind: 3, arg: 1, w: 0 });
                                } else {
                                    mine.push(LinEv { lo: c.t_first_call.load(Relaxed), hi: reg, kind: 4, arg: 0, w });
                                    mine.push(LinEv { lo: reg, hi: c.t_end_ret.load(Relaxed), kind: 5, arg: 0, w });
                                }
                            }
                        }
                    }
                    run.ops.fetch_add(1, Relaxed);
                }
                if i == 0 {
                    // the last word: once everybody else is done or parked for good, a final set() (part of the history)
                    // Logical rule for a waiter that set() skipped (as for the timer): parked with a clear token in
                    // one park epoch from before the call to after its return, three calls in a row.
                    let mut strikes = vec![0u32; run.tasks.len()];
                    let mut sets = 0;
                    while others_left.load(Acquire) > 0 && !run.abort.load(Relaxed) {
                        let mut cand: Vec<(usize, u64)> = vec![];
                        let mut all_quiet = true;
                        for w in 1..run.tasks.len() {
                            let c = &run.tasks[w];
                            let clear = !c.token.load(std::sync::atomic::Ordering::SeqCst);
                            let ep = c.epoch.load(std::sync::atomic::Ordering::SeqCst);
                            let stt = c.state.load(std::sync::atomic::Ordering::SeqCst);
                            if stt == PARKED && clear && ep % 2 == 1 && c.epoch.load(std::sync::atomic::Ordering::SeqCst) == ep {
                                cand.push((w, ep));
                            } else {
                                strikes[w] = 0;
                                if stt != DONE {
                                    all_quiet = false;
                                }
                            }
                        }
                        if all_quiet && !cand.is_empty() && sets < 8 {
                            sets += 1;
                            let c = run.now();
                            ev.set();
                            mine.push(LinEv { lo: c, hi: run.now(), kind: 0, arg: 0, w: 0 });
                            for (w, ep) in cand {
                                let c = &run.tasks[w];
                                let clear = !c.token.load(std::sync::atomic::Ordering::SeqCst);
                                if clear && c.epoch.load(std::sync::atomic::Ordering::SeqCst) == ep {
                                    strikes[w] += 1;
                                    if strikes[w] >= 3 {
                                        skipped.lock().unwrap().push(format!("task {} is parked in wait() with no wake-up through the waker of its latest poll although 3 set() calls began and returned while it was parked", w));
                                        abort_all(&run);
                                    }
                                } else {
                                    strikes[w] = 0;
                                }
                            }
                        }
                        std::thread::yield_now();
                    }
                } else {
                    others_left.fetch_sub(1, AcqRel);
                }
                points.lock().unwrap().extend(mine);
                leave_worker(&run, i);
                let _ = &mut lg;
                lg
            }));
        }
        verdict = supervise(&run, wall_limit());
        if verdict != Verdict::Finished {
            abort_all(&run);
        }
        for h in hs {
            logs.push(joined(h));
        }
    });
    st.absorb(&run, &logs);
    queues_empty(ctx, "event", &mut |v| ev.verif_inspect(v));
    let mut pts = points.lock().unwrap().clone();
    // the observer's last look, after every thread is gone
    let c = run.now();
    let v = ev.is_set();
    pts.push(LinEv { lo: c, hi: run.now(), kind: 2, arg: v as u64, w: 0 });
    let sk = skipped.lock().unwrap().clone();
    ctx.check("C14", "set-wakes-every-parked-waiter", true, sk.is_empty(), || sk.join(" | "));
    if !sk.is_empty() {
        return take_fail(ctx, &logs, &["-"]);
    }
    if verdict == Verdict::Finished && pts.len() <= 20 {
        let ok = event_history_linearizable(&pts, initial);
        ctx.check("C14", "short-history-is-linearizable-against-the-latching-event", true, ok, || {
            let mut p = pts.clone();
            p.sort_by_key(|e| e.lo);
            format!("no linearization of (initially set: {}) {:?} (kind 0 set, 1 reset, 2 is_set->arg, 3 single poll->arg, 4 wait opened, 5 wait completed)", initial, p)
        });
    } else if verdict == Verdict::AllParked {
        st.deadlock_checks += 1;
        ctx.check("C14", "final-set-releases-every-waiter", true, false, || "a set() returned after every waiter was parked, and waiters are still parked with clear tokens".into());
    } else if verdict == Verdict::Watchdog {
        st.watchdogs += 1;
        return Some(Violation { prop: "harness", pred: "watchdog", detail: "wall clock watchdog".into(), log: String::new() });
    }
    take_fail(ctx, &logs, &["-"])
}

// ------------------------------------------------------------------ event (C14)
pub fn wl_event<M: RawMutex + Send + Sync + 'static>(seed: u64, n: usize, rounds: usize, ctx: &mut Ctx, st: &mut ConcStats) -> Option<Violation> {
    let ev: GenericManualResetEvent<M> = GenericManualResetEvent::new(false);
    let run = Run::new(n);
    // phase 1: nobody sets (only resets): no wait may complete. phase 2: setters / resetters / waiters.
    // phase 3: a final set() must release everybody.
    let phase = AtomicU64::new(1);
    let first_set_call = AtomicU64::new(u64::MAX);
    let early = AtomicU64::new(0);
    let cancelled = AtomicU64::new(0);
    let completed = AtomicU64::new(0);
    let mut logs: Vec<Vec<LogEv>> = vec![];
    let mut verdict = Verdict::Finished;
    let mut set_at_deadlock = false;
    std::thread::scope(|s| {
        let mut hs = vec![];
        for i in 0..n {
            let (ev, phase, first_set_call, early, cancelled, completed, run) = (&ev, &phase, &first_set_call, &early, &cancelled, &completed, run.clone());
            hs.push(s.spawn(move || {
                enter_worker(&run, i, seed ^ (i as u64 + 1).wrapping_mul(0x9E37_79B9));
                let mut rng = Rng::new(seed.wrapping_mul(43).wrapping_add(i as u64));
                let mut lg: Vec<LogEv> = Vec::with_capacity(rounds + 4);
                for r in 0..=rounds {
                    if run.abort.load(Relaxed) {
                        break;
                    }
                    let last = r == rounds;
                    let ph = phase.load(Acquire);
                    if i == 0 {
                        // the controller: resets, later sets, finally sets for good
                        if r == rounds / 3 {
                            phase.store(2, Release);
                        }
                        if last {
                            phase.store(3, Release);
                            log!(lg, run, i, 0u8, 0u64, {
                                let c = run.now();
                                first_set_call.fetch_min(c, Relaxed);
                                ev.set();
                                ((), 1)
                            });
                            break;
                        }
                        if ph >= 2 && rng.below(3) == 0 {
                            log!(lg, run, i, 0u8, 0u64, {
                                let c = run.now();
                                first_set_call.fetch_min(c, Relaxed);
                                ev.set();
                                ((), 1)
                            });
                        } else {
                            log!(lg, run, i, 1u8, 0u64, {
                                ev.reset();
                                ((), 0)
                            });
                        }
                        std::thread::yield_now();
                        continue;
                    }
                    let how = if last { if rng.below(3) == 0 { Drive::Repoll(1) } else { Drive::Block } } else { pick_drive(&mut rng) };
                    log!(lg, run, i, 2u8, how_code(how), {
                        let o = drive(&run, i, ev.wait(), how, 1);
                        drive_stats(cancelled, completed, &o);
                        match o {
                            Outcome::Ready(()) => {
                                // a completed wait needs a set() that was at least called before now
                                let now = run.now();
                                if first_set_call.load(Relaxed) > now {
                                    early.fetch_add(1, Relaxed);
                                }
                                ((), 1)
                            }
                            _ => ((), 0),
                        }
                    });
                }
                leave_worker(&run, i);
                lg
            }));
        }
        verdict = supervise(&run, wall_limit());
        if verdict != Verdict::Finished {
            set_at_deadlock = ev.is_set() && phase.load(Acquire) == 3;
            abort_all(&run);
        }
        for h in hs {
            logs.push(joined(h));
        }
    });
    st.absorb(&run, &logs);
    st.cancelled += cancelled.load(Relaxed);
    st.completed += completed.load(Relaxed);
    let names = ["set", "reset", "wait"];
    queues_empty(ctx, "event", &mut |v| ev.verif_inspect(v));
    let e = early.load(Relaxed);
    ctx.check("C14", "no-wait-completes-before-the-first-set-was-called", true, e == 0, || format!("{} waits completed although no set() had been called yet", e));
    match verdict {
        Verdict::Finished => ctx.check("C14", "final-set-releases-every-waiter", true, true, String::new),
        Verdict::AllParked => {
            st.deadlock_checks += 1;
            ctx.check("C14", "final-set-releases-every-waiter", true, !set_at_deadlock, || "the final set() returned, the event is set, and waiters are still parked with clear tokens".to_string());
            if !set_at_deadlock {
                return Some(Violation { prop: "harness", pred: "all-parked-but-resource-unavailable", detail: "event not set".into(), log: dump(&logs, &names) });
            }
        }
        Verdict::Watchdog => {
            st.watchdogs += 1;
            return Some(Violation { prop: "harness", pred: "watchdog", detail: "wall clock watchdog".into(), log: String::new() });
        }
    }
    take_fail(ctx, &logs, &names)
}

// ------------------------------------------------------------------ shared handle lifecycle (C11)
pub fn wl_handles<L: RawMutex + Send + Sync + 'static>(seed: u64, n: usize, rounds: usize, kind: u8, ctx: &mut Ctx, st: &mut ConcStats) -> Option<Violation> {
    // one holder keeps a handle of each side for the whole run and must never observe "closed"
    // while the other threads clone and drop handles (W2 windows with injected delays)
    let run = Run::new(n);
    let saw_closed = AtomicU64::new(0);
    let mut logs: Vec<Vec<LogEv>> = vec![];
    let names = ["probe", "clone-drop-tx", "clone-drop-rx"];
    macro_rules! body {
        ($tx:expr, $rx:expr, $probe:expr) => {{
            let (tx, rx) = ($tx, $rx);
            std::thread::scope(|s| {
                let mut hs = vec![];
                for i in 0..n {
                    let (saw_closed, run) = (&saw_closed, run.clone());
                    let (txc, rxc) = (tx.clone(), rx.clone());
                    let (txh, rxh) = (&tx, &rx);
                    hs.push(s.spawn(move || {
                        enter_worker(&run, i, seed ^ (i as u64 + 1).wrapping_mul(0x9E37_79B9));
                        let mut rng = Rng::new(seed.wrapping_mul(47).wrapping_add(i as u64));
                        let mut lg: Vec<LogEv> = Vec::with_capacity(rounds + 2);
                        for _ in 0..rounds {
                            if i == 0 {
                                log!(lg, run, i, 0u8, 0u64, {
                                    let closed: bool = $probe(txh, rxh);
                                    if closed {
                                        saw_closed.fetch_add(1, Relaxed);
                                    }
                                    ((), closed as u64)
                                });
                            } else if rng.below(2) == 0 {
                                log!(lg, run, i, 1u8, 0u64, {
                                    let c = txc.clone();
                                    std::thread::yield_now();
                                    drop(c);
                                    ((), 0)
                                });
                            } else {
                                log!(lg, run, i, 2u8, 0u64, {
                                    let c = rxc.clone();
                                    std::thread::yield_now();
                                    drop(c);
                                    ((), 0)
                                });
                            }
                            run.ops.fetch_add(1, Relaxed);
                        }
                        drop(txc);
                        drop(rxc);
                        leave_worker(&run, i);
                        lg
                    }));
                }
                let _ = supervise(&run, wall_limit());
                for h in hs {
                    logs.push(joined(h));
                }
            });
        }};
    }
    match kind {
        0 => {
            let (tx, rx) = generic_channel::<L, u64, FixedHeapBuf<u64>>(1);
            body!(tx, rx, |t: &futures_intrusive::channel::shared::GenericSender<L, u64, FixedHeapBuf<u64>>, r: &futures_intrusive::channel::shared::GenericReceiver<L, u64, FixedHeapBuf<u64>>| {
                // the holder is the only one who sends or receives: what it sends it must get back
                match t.try_send(7) {
                    Err(TrySendError::Closed(_)) => true,
                    Err(TrySendError::Full(_)) => matches!(r.try_receive(), Err(TryReceiveError::Closed)),
                    Ok(()) => !matches!(r.try_receive(), Ok(7)),
                }
            });
        }
        _ => {
            let (tx, rx) = generic_state_broadcast_channel::<L, u64>();
            body!(tx, rx, |t: &futures_intrusive::channel::shared::GenericStateSender<L, u64>, _r: &futures_intrusive::channel::shared::GenericStateReceiver<L, u64>| { t.send(1).is_err() });
        }
    }
    st.absorb(&run, &logs);
    let c = saw_closed.load(Relaxed);
    ctx.check("C11", "never-closed-while-a-handle-of-each-side-is-alive", true, c == 0, || format!("the holder of a sender and a receiver handle observed the channel closed (or its own buffered value gone) {} times while others only cloned and dropped handles", c));
    ctx.check("C08", "value-not-discarded-while-a-receiver-can-still-reach-it", kind == 0, c == 0, || format!("the holder sent a value and could not receive it back {} times although nobody else receives and both sides stay alive", c));
    take_fail(ctx, &logs, &names)
}

// ------------------------------------------------------------------ oneshot (C12)
pub fn wl_oneshot<L: RawMutex + Send + Sync + 'static>(seed: u64, n: usize, broadcast: bool, ctx: &mut Ctx, st: &mut ConcStats) -> Option<Violation> {
    let run = Run::new(n);
    let got = AtomicU64::new(0);
    let none = AtomicU64::new(0);
    let wrong = AtomicU64::new(0);
    let second_send_ok = AtomicU64::new(0);
    let mut logs: Vec<Vec<LogEv>> = vec![];
    let mut verdict = Verdict::Finished;
    let names = ["send", "receive"];
    macro_rules! body {
        ($tx:expr, $rxs:expr) => {{
            let tx = $tx;
            let mut rxs = $rxs;
            std::thread::scope(|s| {
                let mut hs = vec![];
                for i in 0..n {
                    let (got, none, wrong, second_send_ok, run) = (&got, &none, &wrong, &second_send_ok, run.clone());
                    let txr = &tx;
                    let rx = if i > 0 { rxs.pop() } else { None };
                    hs.push(s.spawn(move || {
                        enter_worker(&run, i, seed ^ (i as u64 + 1).wrapping_mul(0x9E37_79B9));
                        let mut rng = Rng::new(seed.wrapping_mul(53).wrapping_add(i as u64));
                        let mut lg: Vec<LogEv> = Vec::with_capacity(8);
                        if i == 0 {
                            for _ in 0..rng.below(4) {
                                std::thread::yield_now();
                            }
                            log!(lg, run, i, 0u8, 42u64, {
                                let r = txr.send(42);
                                ((), r.is_ok() as u64)
                            });
                            log!(lg, run, i, 0u8, 43u64, {
                                let r = txr.send(43);
                                if r.is_ok() {
                                    second_send_ok.fetch_add(1, Relaxed);
                                }
                                ((), r.is_ok() as u64)
                            });
                            run.ops.fetch_add(1, Relaxed);
                        } else {
                            let rx = rx.unwrap();
                            // some receivers give up once and retry: a cancelled receive must not eat the value
                            let mut how = pick_drive(&mut rng);
                            loop {
                                let done = log!(lg, run, i, 1u8, how_code(how), {
                                    match drive(&run, i, rx.receive(), how, 1) {
                                        Outcome::Ready(Some(v)) => {
                                            if v == 42 {
                                                got.fetch_add(1, Relaxed);
                                            } else {
                                                wrong.fetch_add(1, Relaxed);
                                            }
                                            (true, v)
                                        }
                                        Outcome::Ready(None) => {
                                            none.fetch_add(1, Relaxed);
                                            (true, 0)
                                        }
                                        Outcome::Cancelled => (false, 0),
                                        Outcome::Aborted => (true, 0),
                                    }
                                });
                                if done {
                                    break;
                                }
                                how = Drive::Block;
                            }
                        }
                        leave_worker(&run, i);
                        lg
                    }));
                }
                verdict = supervise(&run, wall_limit());
                if verdict != Verdict::Finished {
                    abort_all(&run);
                }
                for h in hs {
                    logs.push(joined(h));
                }
            });
        }};
    }
    if broadcast {
        let (tx, rx) = generic_oneshot_broadcast_channel::<L, u64>();
        let mut v = vec![];
        for _ in 1..n - 1 {
            v.push(rx.clone());
        }
        v.push(rx);
        body!(tx, v);
    } else {
        // single consumer flavour: the receivers compete on a borrowed channel
        let ch = futures_intrusive::channel::GenericOneshotChannel::<L, u64>::new();
        struct R<'a, L2: RawMutex>(&'a futures_intrusive::channel::GenericOneshotChannel<L2, u64>);
        impl<'a, L2: RawMutex> R<'a, L2> {
            fn receive(&self) -> futures_intrusive::channel::ChannelReceiveFuture<'a, L2, u64> {
                self.0.receive()
            }
        }
        struct T<'a, L2: RawMutex>(&'a futures_intrusive::channel::GenericOneshotChannel<L2, u64>);
        impl<'a, L2: RawMutex> T<'a, L2> {
            fn send(&self, v: u64) -> Result<(), futures_intrusive::channel::ChannelSendError<u64>> {
                self.0.send(v)
            }
        }
        let mut v = vec![];
        for _ in 1..n {
            v.push(R(&ch));
        }
        body!(T(&ch), v);
    }
    st.absorb(&run, &logs);
    let (g, nn, w) = (got.load(Relaxed), none.load(Relaxed), wrong.load(Relaxed));
    let receivers = (n - 1) as u64;
    ctx.check("C12", "second-send-is-rejected", true, second_send_ok.load(Relaxed) == 0, || "a second send on a oneshot channel succeeded".into());
    ctx.check("C12", "received-value-is-the-sent-one", true, w == 0, || format!("{} receivers got a value that is not the first sent one", w));
    if verdict == Verdict::Finished {
        if broadcast {
            ctx.check("C12", "broadcast-every-receiver-gets-the-value", true, g == receivers && nn == 0, || format!("{} of {} receivers got the value, {} got None", g, receivers, nn));
        } else {
            ctx.check("C12", "exactly-one-receiver-wins-the-others-get-none", true, g == 1 && nn == receivers - 1, || format!("{} receivers got the value, {} got None (of {})", g, nn, receivers));
        }
    } else if verdict == Verdict::AllParked {
        st.deadlock_checks += 1;
        ctx.check("C12", "every-competing-receiver-terminates", true, false, || "the value was sent, yet receivers are parked with clear wake tokens".into());
    } else {
        st.watchdogs += 1;
        return Some(Violation { prop: "harness", pred: "watchdog", detail: "wall clock watchdog".into(), log: String::new() });
    }
    take_fail(ctx, &logs, &names)
}

/// Two senders and a closer race on a borrowed oneshot (or oneshot broadcast) channel while receivers wait
/// (C12 / C11): exactly one of { send(42) Ok, send(43) Ok, close() NewlyClosed } wins; a failed send hands its
/// own value back; the receivers see the winner's value (one of them / all of them) or None, and terminate.
pub fn wl_oneshot_race<L: RawMutex + Send + Sync + 'static>(seed: u64, n: usize, broadcast: bool, ctx: &mut Ctx, st: &mut ConcStats) -> Option<Violation> {
    let n = n.max(5);
    let run = Run::new(n);
    // results: 0 = not yet, 1 = won (Ok / NewlyClosed), 2 = lost (Err with own value / AlreadyClosed), 3 = Err with a foreign value
    let res = [AtomicU64::new(0), AtomicU64::new(0), AtomicU64::new(0)];
    let got = std::sync::Mutex::new(Vec::<Option<u64>>::new());
    let mut logs: Vec<Vec<LogEv>> = vec![];
    let mut verdict = Verdict::Finished;
    let names = ["send", "receive", "close"];
    macro_rules! body {
        ($ch:expr) => {{
            let ch = $ch;
            std::thread::scope(|s| {
                let mut hs = vec![];
                for i in 0..n {
                    let (res, got, run, ch) = (&res, &got, run.clone(), &ch);
                    hs.push(s.spawn(move || {
                        enter_worker(&run, i, seed ^ (i as u64 + 1).wrapping_mul(0x9E37_79B9));
                        let mut rng = Rng::new(seed.wrapping_mul(67).wrapping_add(i as u64));
                        let mut lg: Vec<LogEv> = Vec::with_capacity(8);
                        for _ in 0..rng.below(4) {
                            std::thread::yield_now();
                        }
                        match i {
                            0 | 1 => {
                                let v = 42 + i as u64;
                                log!(lg, run, i, 0u8, v, {
                                    let r = ch.send(v);
                                    let code = match r {
                                        Ok(()) => 1,
                                        Err(e) => if e.0 == v { 2 } else { 3 },
                                    };
                                    res[i].store(code, Relaxed);
                                    ((), code)
                                });
                                run.ops.fetch_add(1, Relaxed);
                            }
                            2 => {
                                log!(lg, run, i, 2u8, 0u64, {
                                    let r = ch.close();
                                    let code = if r == futures_intrusive::channel::CloseStatus::NewlyClosed { 1 } else { 2 };
                                    res[2].store(code, Relaxed);
                                    ((), code)
                                });
                                run.ops.fetch_add(1, Relaxed);
                            }
                            _ => {
                                let mut how = pick_drive(&mut rng);
                                loop {
                                    let done = log!(lg, run, i, 1u8, how_code(how), {
                                        match drive(&run, i, ch.receive(), how, 1) {
                                            Outcome::Ready(v) => {
                                                got.lock().unwrap().push(v);
                                                (true, v.unwrap_or(0))
                                            }
                                            Outcome::Cancelled => (false, 0),
                                            Outcome::Aborted => (true, 0),
                                        }
                                    });
                                    if done {
                                        break;
                                    }
                                    how = if rng.below(3) == 0 { Drive::Repoll(1) } else { Drive::Block };
                                }
                            }
                        }
                        leave_worker(&run, i);
                        lg
                    }));
                }
                verdict = supervise(&run, wall_limit());
                if verdict != Verdict::Finished {
                    abort_all(&run);
                }
                for h in hs {
                    logs.push(joined(h));
                }
            });
            queues_empty(ctx, "oneshot channel", &mut |v| ch.verif_inspect(v));
        }};
    }
    if broadcast {
        body!(futures_intrusive::channel::GenericOneshotBroadcastChannel::<L, u64>::new());
    } else {
        body!(futures_intrusive::channel::GenericOneshotChannel::<L, u64>::new());
    }
    st.absorb(&run, &logs);
    let r: Vec<u64> = res.iter().map(|x| x.load(Relaxed)).collect();
    let winners = r.iter().filter(|x| **x == 1).count();
    let finished = verdict == Verdict::Finished;
    ctx.check("C12", "exactly-one-of-two-sends-and-a-close-wins", finished, winners == 1, || {
        format!("send(42) -> {}, send(43) -> {}, close() -> {} (1 = Ok / NewlyClosed, 2 = rejected): {} winners", r[0], r[1], r[2], winners)
    });
    ctx.check("C11", "close-is-newly-closed-only-if-no-send-succeeded", finished, !(r[2] == 1 && (r[0] == 1 || r[1] == 1)), || {
        format!("close() returned NewlyClosed although a send succeeded as well (send(42) -> {}, send(43) -> {})", r[0], r[1])
    });
    ctx.check("C12", "failed-send-returns-its-own-value", true, !r.contains(&3), || "a rejected send handed back a value that is not its own".into());
    if finished && winners == 1 {
        let g = got.lock().unwrap().clone();
        let want = if r[0] == 1 { Some(42) } else if r[1] == 1 { Some(43) } else { None };
        let hits = g.iter().filter(|v| **v == want && want.is_some()).count();
        let nones = g.iter().filter(|v| v.is_none()).count();
        let receivers = n - 3;
        let ok = match (want, broadcast) {
            (None, _) => nones == receivers,
            (Some(_), true) => hits == receivers,
            (Some(_), false) => hits == 1 && nones == receivers - 1,
        };
        ctx.check("C12", "receivers-see-exactly-what-the-winner-decided", true, ok, || format!("winner value {:?}, broadcast={}, receivers got {:?}", want, broadcast, g));
    }
    match verdict {
        Verdict::Finished => {}
        Verdict::AllParked => {
            st.deadlock_checks += 1;
            ctx.check("C12", "every-competing-receiver-terminates", true, false, || "a send or close took effect, yet receivers are parked with clear wake tokens".into());
        }
        Verdict::Watchdog => {
            st.watchdogs += 1;
            return Some(Violation { prop: "harness", pred: "watchdog", detail: "wall clock watchdog".into(), log: String::new() });
        }
    }
    take_fail(ctx, &logs, &names)
}

// ------------------------------------------------------------------ state broadcast (C13)
/// Publisher / follower side of a state broadcast flavour (borrowed channel reference or shared handles).
pub trait StTx: Send {
    fn send(&self, v: u64) -> bool;
    /// the only publisher is done: the borrowed flavour closes explicitly, the shared one by dropping the handle
    fn finish(self);
}
pub trait StRx: Send + Clone {
    type F: Future<Output = Option<(StateId, u64)>>;
    fn receive(&self, id: StateId) -> Self::F;
    fn try_receive(&self, id: StateId) -> Option<(StateId, u64)>;
}
impl<'a, L: RawMutex + Send + Sync> StTx for &'a futures_intrusive::channel::GenericStateBroadcastChannel<L, u64> {
    fn send(&self, v: u64) -> bool {
        futures_intrusive::channel::GenericStateBroadcastChannel::send(*self, v).is_ok()
    }
    fn finish(self) {
        let _ = self.close();
    }
}
impl<'a, L: RawMutex + Send + Sync> StRx for &'a futures_intrusive::channel::GenericStateBroadcastChannel<L, u64> {
    type F = futures_intrusive::channel::StateReceiveFuture<'a, L, u64>;
    fn receive(&self, id: StateId) -> Self::F {
        futures_intrusive::channel::GenericStateBroadcastChannel::receive(*self, id)
    }
    fn try_receive(&self, id: StateId) -> Option<(StateId, u64)> {
        futures_intrusive::channel::GenericStateBroadcastChannel::try_receive(*self, id)
    }
}
impl<L: RawMutex + Send + Sync + 'static> StTx for futures_intrusive::channel::shared::GenericStateSender<L, u64> {
    fn send(&self, v: u64) -> bool {
        futures_intrusive::channel::shared::GenericStateSender::send(self, v).is_ok()
    }
    fn finish(self) {}
}
impl<L: RawMutex + Send + Sync + 'static> StRx for futures_intrusive::channel::shared::GenericStateReceiver<L, u64> {
    type F = futures_intrusive::channel::shared::StateReceiveFuture<L, u64>;
    fn receive(&self, id: StateId) -> Self::F {
        futures_intrusive::channel::shared::GenericStateReceiver::receive(self, id)
    }
    fn try_receive(&self, id: StateId) -> Option<(StateId, u64)> {
        futures_intrusive::channel::shared::GenericStateReceiver::try_receive(self, id)
    }
}

pub fn wl_state<L: RawMutex + Send + Sync + 'static>(seed: u64, n: usize, pubs: u64, ctx: &mut Ctx, st: &mut ConcStats) -> Option<Violation> {
    if seed % 2 == 0 {
        let (tx, rx) = generic_state_broadcast_channel::<L, u64>();
        wl_state_inner(tx, rx, seed, n, pubs, ctx, st)
    } else {
        let ch = futures_intrusive::channel::GenericStateBroadcastChannel::<L, u64>::new();
        wl_state_inner(&ch, &ch, seed, n, pubs, ctx, st)
    }
}

fn wl_state_inner<TX: StTx, RX: StRx>(tx: TX, rx: RX, seed: u64, n: usize, pubs: u64, ctx: &mut Ctx, st: &mut ConcStats) -> Option<Violation> {
    let run = Run::new(n);
    let bad = std::sync::Mutex::new(Vec::<String>::new());
    let mut logs: Vec<Vec<LogEv>> = vec![];
    let mut verdict = Verdict::Finished;
    std::thread::scope(|s| {
        let mut hs = vec![];
        let mut tx = Some(tx);
        for i in 0..n {
            let (bad, run) = (&bad, run.clone());
            let tx = if i == 0 { tx.take() } else { None };
            let rx = rx.clone();
            hs.push(s.spawn(move || {
                enter_worker(&run, i, seed ^ (i as u64 + 1).wrapping_mul(0x9E37_79B9));
                let mut rng = Rng::new(seed.wrapping_mul(59).wrapping_add(i as u64));
                let mut lg: Vec<LogEv> = Vec::with_capacity(pubs as usize * 3 + 4);
                if let Some(tx) = tx {
                    drop(rx);
                    for v in 1..=pubs {
                        log!(lg, run, i, 0u8, v, {
                            let r = tx.send(v);
                            ((), r as u64)
                        });
                        run.ops.fetch_add(1, Relaxed);
                        if rng.below(2) == 0 {
                            std::thread::yield_now();
                        }
                    }
                    tx.finish(); // last sender: closes
                } else {
                    let mut id = StateId::new();
                    let mut last_v = 0u64;
                    // every third follower polls with try_receive for a while before it starts to wait
                    let mut spins = if i % 3 == 1 { 20 + rng.below(200) } else { 0 };
                    loop {
                        if run.abort.load(Relaxed) {
                            break;
                        }
                        if spins > 0 {
                            spins -= 1;
                            log!(lg, run, i, 2u8, last_v, {
                                match rx.try_receive(id) {
                                    Some((nid, v)) => {
                                        if !(nid > id) || v <= last_v || v > pubs {
                                            bad.lock().unwrap().push(format!("follower {}: after (id {:?}, value {}) try_receive returned (id {:?}, value {})", i, id, last_v, nid, v));
                                        }
                                        id = nid;
                                        last_v = v;
                                        ((), v)
                                    }
                                    None => ((), 0),
                                }
                            });
                            run.ops.fetch_add(1, Relaxed);
                            continue;
                        }
                        let how = pick_drive(&mut rng);
                        let stop = log!(lg, run, i, 1u8, last_v, {
                            match drive(&run, i, rx.receive(id), how, 1) {
                                Outcome::Ready(Some((nid, v))) => {
                                    if !(nid > id) || v <= last_v {
                                        bad.lock().unwrap().push(format!("follower {}: after (id {:?}, value {}) got (id {:?}, value {})", i, id, last_v, nid, v));
                                    }
                                    id = nid;
                                    last_v = v;
                                    (false, v)
                                }
                                Outcome::Ready(None) => {
                                    if last_v != pubs {
                                        bad.lock().unwrap().push(format!("follower {} got None after value {} although {} was published", i, last_v, pubs));
                                    }
                                    (true, 0)
                                }
                                Outcome::Cancelled => (false, 0),
                                Outcome::Aborted => (true, 0),
                            }
                        });
                        if stop {
                            break;
                        }
                    }
                }
                leave_worker(&run, i);
                lg
            }));
        }
        drop(rx);
        verdict = supervise(&run, wall_limit());
        if verdict != Verdict::Finished {
            abort_all(&run);
        }
        for h in hs {
            logs.push(joined(h));
        }
    });
    st.absorb(&run, &logs);
    let names = ["send", "receive", "try_receive"];
    let b = bad.lock().unwrap().clone();
    ctx.check("C13", "followers-see-strictly-increasing-ids-and-values-then-the-latest-then-none", true, b.is_empty(), || b.join(" | "));
    match verdict {
        Verdict::Finished => ctx.check("C13", "followers-terminate-after-close", true, true, String::new),
        Verdict::AllParked => {
            st.deadlock_checks += 1;
            ctx.check("C13", "followers-terminate-after-close", true, false, || "the publisher finished and dropped its handle, yet followers are parked with clear wake tokens".into());
        }
        Verdict::Watchdog => {
            st.watchdogs += 1;
            return Some(Violation { prop: "harness", pred: "watchdog", detail: "wall clock watchdog".into(), log: String::new() });
        }
    }
    take_fail(ctx, &logs, &names)
}

// ------------------------------------------------------------------ timer (C15)
pub fn wl_timer<L: RawMutex + Send + Sync + 'static>(seed: u64, n: usize, rounds: usize, ctx: &mut Ctx, st: &mut ConcStats) -> Option<Violation> {
    let clock_owner = crate::util::Leaked::new(MockClock::new());
    let clock: &'static MockClock = clock_owner.get();
    let svc: GenericTimerService<L> = GenericTimerService::new(clock);
    let run = Run::new(n);
    let early = std::sync::Mutex::new(Vec::<String>::new());
    let skipped = std::sync::Mutex::new(Vec::<String>::new());
    let workers_left = AtomicU64::new((n - 1) as u64);
    let cancelled = AtomicU64::new(0);
    let completed = AtomicU64::new(0);
    let mut logs: Vec<Vec<LogEv>> = vec![];
    let mut verdict = Verdict::Finished;
    std::thread::scope(|s| {
        let mut hs = vec![];
        for i in 0..n {
            let (svc, early, skipped, workers_left, cancelled, completed, run) = (&svc, &early, &skipped, &workers_left, &cancelled, &completed, run.clone());
            hs.push(s.spawn(move || {
                enter_worker(&run, i, seed ^ (i as u64 + 1).wrapping_mul(0x9E37_79B9));
                let mut rng = Rng::new(seed.wrapping_mul(61).wrapping_add(i as u64));
                let mut lg: Vec<LogEv> = Vec::with_capacity(rounds + 4);
                use futures_intrusive::timer::Clock;
                if i == 0 {
                    // ticker: monotone clock + check_expirations until all workers are done, then time = MAX
                    let mut t = 0u64;
                    // Logical rule for "a due timer was not woken" (no wall clock involved): a worker that is
                    // parked with a clear wake token on a deadline <= t *before* a check_expirations() call starts
                    // (so its timer is registered and the call observes clock >= deadline) and that is still
                    // parked, with a clear token and an unchanged wake counter, after the call returned, was
                    // skipped by that call. Required for three consecutive calls before it is reported.
                    let mut strikes = vec![0u32; n];
                    while workers_left.load(Acquire) > 0 && !run.abort.load(Relaxed) {
                        t += 1 + rng.below(3) as u64;
                        clock.set_time(t);
                        let mut cand: Vec<(usize, u64)> = Vec::new();
                        for w in 1..n {
                            let c = &run.tasks[w];
                            // token first, epoch / state afterwards (see `TaskCtl::epoch`)
                            let clear = !c.token.load(std::sync::atomic::Ordering::SeqCst);
                            let ep = c.epoch.load(std::sync::atomic::Ordering::SeqCst);
                            if clear && ep % 2 == 1 && c.state.load(std::sync::atomic::Ordering::SeqCst) == PARKED && c.waiting_for.load(Relaxed) <= t && c.epoch.load(std::sync::atomic::Ordering::SeqCst) == ep {
                                cand.push((w, ep));
                            } else {
                                strikes[w] = 0;
                            }
                        }
                        svc.check_expirations();
                        for (w, ep) in cand {
                            let c = &run.tasks[w];
                            let clear = !c.token.load(std::sync::atomic::Ordering::SeqCst);
                            if clear && c.epoch.load(std::sync::atomic::Ordering::SeqCst) == ep {
                                strikes[w] += 1;
                                if strikes[w] >= 3 {
                                    skipped.lock().unwrap().push(format!(
                                        "task {} waits (parked, no wake-up through the waker of its latest poll) for deadline {} although 3 check_expirations() calls ran with clock >= {} (now {}); next_expiration() = {:?}",
                                        w, c.waiting_for.load(Relaxed), c.waiting_for.load(Relaxed), t, svc.next_expiration()
                                    ));
                                    abort_all(&run);
                                    break;
                                }
                            } else {
                                strikes[w] = 0;
                            }
                        }
                        run.ops.fetch_add(1, Relaxed);
                        std::thread::yield_now();
                    }
                    clock.set_time(u32::MAX as u64);
                    svc.check_expirations();
                } else {
                    for _ in 0..rounds {
                        if run.abort.load(Relaxed) {
                            break;
                        }
                        let now = clock.now();
                        let d = rng.below(6) as u64;
                        let deadline = now + d;
                        let how = match rng.below(6) {
                            0 => Drive::Once,
                            1 => Drive::Yields(2),
                            2 | 3 => Drive::Repoll(rng.below(3) as u32),
                            _ => Drive::Block,
                        };
                        log!(lg, run, i, 0u8, deadline, {
                            let o = drive(&run, i, Timer::deadline(svc, deadline), how, deadline);
                            drive_stats(cancelled, completed, &o);
                            match o {
                                Outcome::Ready(()) => {
                                    // the clock is monotone: reading it after completion must give >= deadline
                                    let after = clock.now();
                                    if after < deadline {
                                        early.lock().unwrap().push(format!("timer with deadline {} completed, clock read afterwards: {}", deadline, after));
                                    }
                                    ((), 1)
                                }
                                _ => ((), 0),
                            }
                        });
                    }
                    workers_left.fetch_sub(1, AcqRel);
                }
                leave_worker(&run, i);
                lg
            }));
        }
        verdict = supervise(&run, wall_limit());
        if verdict != Verdict::Finished {
            abort_all(&run);
        }
        for h in hs {
            logs.push(joined(h));
        }
    });
    st.absorb(&run, &logs);
    st.cancelled += cancelled.load(Relaxed);
    st.completed += completed.load(Relaxed);
    let names = ["deadline"];
    queues_empty(ctx, "timer", &mut |v| svc.verif_inspect(v));
    let e = early.lock().unwrap().clone();
    ctx.check("C15", "timer-never-completes-before-its-deadline", true, e.is_empty(), || e.join(" | "));
    let ne = svc.next_expiration();
    ctx.check("C15", "no-timer-left-registered-after-all-futures-are-gone", true, ne.is_none(), || format!("next_expiration() = {:?} with no timer future alive", ne));
    let sk = skipped.lock().unwrap().clone();
    let verdict = if sk.is_empty() { verdict } else { Verdict::Finished };
    let r = match verdict {
        Verdict::Finished => {
            ctx.check("C15", "due-timers-are-woken-by-check_expirations", true, sk.is_empty(), || sk.join(" | "));
            None
        }
        Verdict::AllParked => {
            // the ticker never parks: an all-parked verdict cannot happen here
            Some(Violation { prop: "harness", pred: "all-parked-but-resource-unavailable", detail: "timer".into(), log: dump(&logs, &names) })
        }
        Verdict::Watchdog => {
            st.watchdogs += 1;
            // the ticker advances the clock until all workers finished; a worker whose due timer is never
            // woken keeps everything alive until the watchdog: report as inconclusive with the log
            Some(Violation { prop: "harness", pred: "watchdog", detail: "wall clock watchdog (a timer that is never woken ends here)".into(), log: dump(&logs, &names) })
        }
    };
    drop(svc);
    unsafe { clock_owner.reclaim() };
    if r.is_some() {
        return r;
    }
    take_fail(ctx, &logs, &names)
}



// ------------------------------------------------------------------ mutex hand-off under tight contention (C01/C02/C03)
/// Three tasks take the mutex through lock futures (blocking), three through try_lock, all in tight
/// loops without pauses: maximises real overlap of guard drops, try_lock barging and registrations.
pub fn wl_mutex_handoff<M: RawMutex + Send + Sync + 'static>(seed: u64, iters: usize, fair: bool, ctx: &mut Ctx, st: &mut ConcStats) -> Option<Violation> {
    let n = 6;
    let m: GenericMutex<M, u64> = GenericMutex::new(0, fair);
    let in_cs = AtomicBool::new(false);
    let overlap = AtomicU64::new(0);
    let acquired = AtomicU64::new(0);
    let lockers_left = AtomicU64::new(3);
    let run = Run::new(n);
    let mut logs: Vec<Vec<LogEv>> = vec![];
    let mut verdict = Verdict::Finished;
    let mut free_at_deadlock = false;
    std::thread::scope(|s| {
        let mut hs = vec![];
        for i in 0..n {
            let (m, in_cs, overlap, acquired, lockers_left, run) = (&m, &in_cs, &overlap, &acquired, &lockers_left, run.clone());
            hs.push(s.spawn(move || {
                enter_worker(&run, i, seed ^ (i as u64 + 1).wrapping_mul(0x9E37_79B9));
                let crit = |g: &mut u64, hold: u32| {
                    if in_cs.swap(true, Relaxed) {
                        overlap.fetch_add(1, Relaxed);
                    }
                    *g += 1;
                    for _ in 0..hold {
                        std::hint::spin_loop();
                    }
                    in_cs.store(false, Relaxed);
                    acquired.fetch_add(1, Relaxed);
                };
                if i < 3 {
                    for _ in 0..iters {
                        match drive(&run, i, m.lock(), Drive::Block, 1) {
                            Outcome::Ready(mut g) => {
                                crit(&mut *g, 0);
                                drop(g);
                            }
                            _ => break,
                        }
                    }
                    lockers_left.fetch_sub(1, AcqRel);
                } else {
                    let mut k = 0u32;
                    while lockers_left.load(Acquire) > 0 && !run.abort.load(Relaxed) {
                        if let Some(mut g) = m.try_lock() {
                            k = k.wrapping_add(1);
                            crit(&mut *g, (k % 7) * 40);
                            drop(g);
                            run.ops.fetch_add(1, Relaxed);
                        }
                    }
                }
                leave_worker(&run, i);
                Vec::<LogEv>::new()
            }));
        }
        verdict = supervise(&run, wall_limit());
        if verdict != Verdict::Finished {
            free_at_deadlock = !m.is_locked();
            lockers_left.store(0, Release);
            abort_all(&run);
        }
        for h in hs {
            logs.push(joined(h));
        }
    });
    st.absorb(&run, &logs);
    queues_empty(ctx, "mutex (hand-off)", &mut |v| m.verif_inspect(v));
    let total = acquired.load(Relaxed);
    let ov = overlap.load(Relaxed);
    ctx.check("C02", "threads-never-inside-the-critical-section-together", total > 0, ov == 0, || format!("{} overlapping critical sections observed", ov));
    if let Some(g) = m.try_lock() {
        let value = *g;
        ctx.check("C02", "non-atomic-counter-equals-number-of-acquisitions", total > 0, value == total || verdict != Verdict::Finished, || format!("protected counter is {} after {} acquisitions", value, total));
    }
    match verdict {
        Verdict::Finished => ctx.check("C03", "looping-tasks-with-cancellation-terminate", true, true, String::new),
        Verdict::AllParked => {
            st.deadlock_checks += 1;
            ctx.check("C03", "looping-tasks-with-cancellation-terminate", true, !free_at_deadlock, || "all unfinished tasks are parked with clear wake tokens while the mutex is free: lost wake-up".to_string());
            if !free_at_deadlock {
                return Some(Violation { prop: "harness", pred: "all-parked-but-resource-unavailable", detail: "mutex still locked while everybody is parked".into(), log: String::new() });
            }
        }
        Verdict::Watchdog => {
            st.watchdogs += 1;
            return Some(Violation { prop: "harness", pred: "watchdog", detail: "wall clock watchdog".into(), log: String::new() });
        }
    }
    take_fail(ctx, &logs, &["lock"])
}

// ------------------------------------------------------------------ is_locked() observers (C02)
pub fn wl_mutex_observer<M: RawMutex + Send + Sync + 'static>(seed: u64, n: usize, rounds: usize, fair: bool, held: bool, ctx: &mut Ctx, st: &mut ConcStats) -> Option<Violation> {
    // held = false: no guard is ever alive -> is_locked() must always be false
    // held = true : the supervisor owns a guard for the whole run -> is_locked() must always be true
    let m: GenericMutex<M, u64> = GenericMutex::new(0, fair);
    let guard = if held { Some(m.try_lock().expect("fresh mutex")) } else { None };
    let run = Run::new(n);
    let wrong = AtomicU64::new(0);
    let mut logs: Vec<Vec<LogEv>> = vec![];
    std::thread::scope(|s| {
        let mut hs = vec![];
        for i in 0..n {
            let (m, wrong, run) = (&m, &wrong, run.clone());
            hs.push(s.spawn(move || {
                enter_worker(&run, i, seed ^ (i as u64 + 1).wrapping_mul(0x9E37_79B9));
                let mut rng = Rng::new(seed.wrapping_mul(67).wrapping_add(i as u64));
                let mut lg: Vec<LogEv> = Vec::with_capacity(rounds + 2);
                for _ in 0..rounds {
                    match rng.below(3) {
                        0 => {
                            // create and drop a lock future without polling it (takes the internal lock only)
                            let f = m.lock();
                            drop(f);
                        }
                        1 if held => {
                            // register and cancel while the guard is held by the supervisor
                            let how = if rng.below(2) == 0 { Drive::Once } else { Drive::Abandon(1) };
                            let _ = drive(&run, i, m.lock(), how, 1);
                        }
                        _ => {}
                    }
                    log!(lg, run, i, 0u8, 0u64, {
                        let l = m.is_locked();
                        if l != held {
                            wrong.fetch_add(1, Relaxed);
                        }
                        ((), l as u64)
                    });
                    run.ops.fetch_add(1, Relaxed);
                }
                leave_worker(&run, i);
                lg
            }));
        }
        let v = supervise(&run, wall_limit());
        if v != Verdict::Finished {
            abort_all(&run);
        }
        for h in hs {
            logs.push(joined(h));
        }
    });
    drop(guard);
    st.absorb(&run, &logs);
    let w = wrong.load(Relaxed);
    ctx.check("C02", "is_locked-exactly-while-a-guard-is-alive-under-concurrent-observers", true, w == 0, || {
        format!("is_locked() returned {} {} times while {}", !held, w, if held { "a guard was alive for the whole run" } else { "no guard was ever alive" })
    });
    take_fail(ctx, &logs, &["is_locked"])
}

// ------------------------------------------------------------------ last handles dropped concurrently (C11)
fn barrier(arrived: &AtomicU64, n: u64) {
    arrived.fetch_add(1, AcqRel);
    while arrived.load(Acquire) < n {
        if cfg!(miri) {
            std::thread::yield_now();
        } else {
            std::hint::spin_loop();
        }
    }
}

pub fn wl_lastdrop<L: RawMutex + Send + Sync + 'static>(seed: u64, n: usize, kind: u8, ctx: &mut Ctx, st: &mut ConcStats) -> Option<Violation> {
    let run = Run::new(n);
    let arrived = AtomicU64::new(0);
    let mut logs: Vec<Vec<LogEv>> = vec![];
    let names = ["drop-handle", "try_send"];
    let mut problem: Option<(&'static str, String)> = None;
    macro_rules! race_drop {
        ($handles:expr, $extra:expr) => {{
            let mut handles = $handles;
            let mut extra_once: Option<Box<dyn Fn(u64) -> u64 + Send>> = $extra;
            std::thread::scope(|s| {
                let mut hs = vec![];
                for i in 0..n {
                    let (arrived, run) = (&arrived, run.clone());
                    let extra = if i == 0 { extra_once.take() } else { None };
                    // the thread that keeps sending holds no handle of the side that is being dropped
                    let h = if extra.is_some() { None } else { handles.pop() };
                    hs.push(s.spawn(move || {
                        enter_worker(&run, i, seed ^ (i as u64 + 1).wrapping_mul(0x9E37_79B9));
                        let mut lg: Vec<LogEv> = Vec::with_capacity(40);
                        barrier(arrived, n as u64);
                        for _ in 0..(seed.wrapping_mul(i as u64 + 3) % 4) {
                            if extra.is_none() {
                                std::hint::spin_loop();
                            }
                        }
                        if let Some(f) = extra {
                            for k in 0..400u64 {
                                let r = f(k);
                                if k < 30 {
                                    log!(lg, run, i, 1u8, k, { ((), r) });
                                }
                            }
                        }
                        log!(lg, run, i, 0u8, 0u64, {
                            drop(h);
                            ((), 0)
                        });
                        run.ops.fetch_add(1, Relaxed);
                        leave_worker(&run, i);
                        lg
                    }));
                }
                let _ = supervise(&run, wall_limit());
                for h in hs {
                    logs.push(joined(h));
                }
            });
        }};
    }
    match kind {
        0 => {
            // the last mpmc senders are dropped at the same moment: the channel must end up closed
            let (tx, rx) = generic_channel::<L, u64, FixedHeapBuf<u64>>(1);
            let mut v = vec![];
            for _ in 1..n {
                v.push(tx.clone());
            }
            v.push(tx);
            race_drop!(v, None::<Box<dyn Fn(u64) -> u64 + Send>>);
            if !matches!(rx.try_receive(), Err(TryReceiveError::Closed)) {
                problem = Some(("closed-after-the-last-sender-handle-is-dropped", "all sender handles were dropped (concurrently) but the channel is still open".into()));
            }
        }
        1 => {
            // the last mpmc receivers are dropped while a sender keeps calling try_send: afterwards the
            // channel is closed and nothing is left in the buffer
            let (tx, rx) = generic_channel::<L, u64, FixedHeapBuf<u64>>(2);
            let mut v = vec![];
            // n - 1 receiver handles for the threads 1..n; thread 0 only sends
            for _ in 2..n {
                v.push(rx.clone());
            }
            v.push(rx);
            let txc = tx.clone();
            race_drop!(v, Some(Box::new(move |k: u64| txc.try_send(k).is_ok() as u64) as Box<dyn Fn(u64) -> u64 + Send>));
            let mut prim = futures_intrusive::verif::PrimInfo::default();
            tx.verif_channel().verif_inspect(&mut |x| match x {
                Visit::Prim(p) => {
                    prim = p;
                    true
                }
                Visit::Addr(..) => false,
                _ => true,
            });
            if !prim.flag {
                problem = Some(("closed-after-the-last-receiver-handle-is-dropped", "all receiver handles were dropped (concurrently) but the channel is still open".into()));
            } else if prim.count != 0 {
                problem = Some(("last-receiver-drop-discards-buffered-values-immediately", format!("{} values are still buffered after the last receiver handle was dropped (a concurrent try_send slipped in)", prim.count)));
            }
        }
        2 => {
            let (tx, rx) = generic_state_broadcast_channel::<L, u64>();
            let mut v = vec![];
            for _ in 1..n {
                v.push(tx.clone());
            }
            v.push(tx);
            race_drop!(v, None::<Box<dyn Fn(u64) -> u64 + Send>>);
            let mut closed = false;
            rx.verif_channel().verif_inspect(&mut |x| match x {
                Visit::Prim(p) => {
                    closed = p.flag;
                    true
                }
                Visit::Addr(..) => false,
                _ => true,
            });
            if !closed {
                problem = Some(("closed-after-the-last-sender-handle-is-dropped", "all state-broadcast sender handles were dropped (concurrently) but the channel is still open".into()));
            }
        }
        _ => {
            let (tx, rx) = generic_state_broadcast_channel::<L, u64>();
            let mut v = vec![];
            for _ in 1..n {
                v.push(rx.clone());
            }
            v.push(rx);
            race_drop!(v, None::<Box<dyn Fn(u64) -> u64 + Send>>);
            if tx.send(1).is_ok() {
                problem = Some(("closed-after-the-last-receiver-handle-is-dropped", "all state-broadcast receiver handles were dropped (concurrently) but send() still succeeds".into()));
            }
        }
    }
    st.absorb(&run, &logs);
    ctx.check("C11", "closed-exactly-when-the-last-handle-of-a-side-is-dropped-concurrently", true, problem.is_none(), || {
        let (p, d) = problem.clone().unwrap();
        format!("{}: {}", p, d)
    });
    take_fail(ctx, &logs, &names)
}

// ------------------------------------------------------------------ dispatcher
/// Runs one threaded run. Returns every failed predicate of the run (a run that ended in the watchdog may
/// still have produced a verdict of the property under check - e.g. an overtaken waiter - before it got stuck).
pub fn run_workload(name: &str, seed: u64, ctx: &mut Ctx, st: &mut ConcStats) -> Vec<Violation> {
    let first = run_workload_first(name, seed, ctx, st);
    let mut all: Vec<Violation> = vec![];
    let log = first.as_ref().map(|v| v.log.clone()).unwrap_or_default();
    if let Some(v) = first {
        all.push(v);
    }
    for f in std::mem::take(&mut ctx.fails) {
        if !all.iter().any(|v| v.prop == f.prop && v.pred == f.pred) {
            all.push(Violation { prop: f.prop, pred: f.pred, detail: f.detail, log: log.clone() });
        }
    }
    all
}

fn run_workload_first(name: &str, seed: u64, ctx: &mut Ctx, st: &mut ConcStats) -> Option<Violation> {
    crate::conc::WORKER_PANICKED.store(false, Relaxed);
    WORKER_PANICS.lock().unwrap().clear();
    let r = run_workload_inner(name, seed, ctx, st);
    let panics = std::mem::take(&mut *WORKER_PANICS.lock().unwrap());
    if !panics.is_empty() {
        // a panic inside a crate call on a contract-respecting threaded history: everything else that
        // happened in this run (e.g. peers left parked forever) is a consequence of it
        ctx.fails.clear();
        ctx.check("C01", "no-panic-on-contract-respecting-history", true, false, String::new);
        ctx.fails.clear();
        return Some(Violation { prop: "C01", pred: "no-panic-on-contract-respecting-history", detail: format!("worker thread panicked: {}", panics.join(" | ")), log: r.map(|v| v.log).unwrap_or_default() });
    }
    r
}

fn run_workload_inner(name: &str, seed: u64, ctx: &mut Ctx, st: &mut ConcStats) -> Option<Violation> {
    let mut rng = Rng::new(seed ^ crate::util::hash_str(name));
    let small = cfg!(miri);
    let n = if small { 3 } else { 3 + rng.below(4) };
    let rounds = if small { 4 } else if rng.below(2) == 0 { 2 + rng.below(5) } else { 4 + rng.below(20) };
    let fair = rng.below(2) == 0;
    let spin = rng.below(2) == 0;
    // every now and then: few long runs with many threads hammering without pauses (true overlap)
    let hammer = std::env::var_os("FIV_HAMMER").is_some();
    let (n, rounds) = if !small && (hammer || rng.below(12) == 0) { (6, 1500) } else { (n, rounds) };
    let fair = if hammer { seed % 2 == 0 } else { fair };
    ctx.cur_fp = seed;
    ctx.cur_ev = Ev::new(0, n as u8, fair as u8);
    match name {
        "mutex" if !small && (hammer || rng.below(8) == 0) => {
            let it = 300 + rng.below(500);
            if spin {
                wl_mutex_handoff::<Spin>(seed, it, fair, ctx, st)
            } else {
                wl_mutex_handoff::<Pl>(seed, it, fair, ctx, st)
            }
        }
        "mutex" if rng.below(5) == 0 => {
            let (r, held) = (if small { 6 } else { 30 + rng.below(100) }, rng.below(2) == 0);
            if spin {
                wl_mutex_observer::<Spin>(seed, n, r, fair, held, ctx, st)
            } else {
                wl_mutex_observer::<Pl>(seed, n, r, fair, held, ctx, st)
            }
        }
        "mutex" => {
            if spin {
                wl_mutex::<Spin>(seed, n, rounds, fair, ctx, st)
            } else {
                wl_mutex::<Pl>(seed, n, rounds, fair, ctx, st)
            }
        }
        "semaphore" => {
            // a single permit in half of the fair runs: the semaphore is then an exclusive resource and the
            // fairness oracle can use its stronger form
            let total = if fair && rng.below(2) == 0 { 1 } else { 1 + rng.below(3) };
            let shared = rng.below(2) == 0;
            if spin {
                wl_semaphore::<Spin>(seed, n, rounds, fair, total, shared, ctx, st)
            } else {
                wl_semaphore::<Pl>(seed, n, rounds, fair, total, shared, ctx, st)
            }
        }
        "mpmc" => {
            let p = 1 + rng.below(if small { 2 } else { 3 });
            let c = 1 + rng.below(if small { 2 } else { 3 });
            let per = if small { 3 } else { 3 + rng.below(12) };
            let shared = rng.below(2) == 0;
            match rng.below(5) {
                0 if spin => wl_mpmc::<Spin, ArrayBuf<u64, [u64; 0]>>(seed, p, c, per, 0, shared, ctx, st),
                1 if spin => wl_mpmc::<Spin, ArrayBuf<u64, [u64; 1]>>(seed, p, c, per, 1, shared, ctx, st),
                0 => wl_mpmc::<Pl, ArrayBuf<u64, [u64; 0]>>(seed, p, c, per, 0, shared, ctx, st),
                1 => wl_mpmc::<Pl, ArrayBuf<u64, [u64; 1]>>(seed, p, c, per, 1, shared, ctx, st),
                2 => wl_mpmc::<Spin, ArrayBuf<u64, [u64; 2]>>(seed, p, c, per, 2, shared, ctx, st),
                3 => wl_mpmc::<Pl, futures_intrusive::buffer::GrowingHeapBuf<u64>>(seed, p, c, per, rng.below(3), shared, ctx, st),
                _ => wl_mpmc::<Pl, FixedHeapBuf<u64>>(seed, p, c, per, 2, shared, ctx, st),
            }
        }
        "event" if rng.below(2) == 0 => {
            if spin {
                wl_event_lin::<Spin>(seed, n, ctx, st)
            } else {
                wl_event_lin::<Pl>(seed, n, ctx, st)
            }
        }
        "event" if spin => wl_event::<Spin>(seed, n, rounds.max(6), ctx, st),
        "event" => wl_event::<Pl>(seed, n, rounds.max(6), ctx, st),
        "handles" if rng.below(2) == 0 => {
            let k = rng.below(4) as u8;
            if spin {
                wl_lastdrop::<Spin>(seed, n.min(4), k, ctx, st)
            } else {
                wl_lastdrop::<Pl>(seed, n.min(4), k, ctx, st)
            }
        }
        "handles" => {
            let (r, k) = (if small { 6 } else { 40 }, rng.below(2) as u8);
            if spin {
                wl_handles::<Spin>(seed, n, r, k, ctx, st)
            } else {
                wl_handles::<Pl>(seed, n, r, k, ctx, st)
            }
        }
        "oneshot" if rng.below(3) == 0 => {
            if spin {
                wl_oneshot_race::<Spin>(seed, n, rng.below(2) == 0, ctx, st)
            } else {
                wl_oneshot_race::<Pl>(seed, n, rng.below(2) == 0, ctx, st)
            }
        }
        "oneshot" if spin => wl_oneshot::<Spin>(seed, n.max(3), rng.below(2) == 0, ctx, st),
        "oneshot" => wl_oneshot::<Pl>(seed, n.max(3), rng.below(2) == 0, ctx, st),
        "state" if spin => wl_state::<Spin>(seed, n, if small { 3 } else { 3 + rng.below(10) as u64 }, ctx, st),
        "state" => wl_state::<Pl>(seed, n, if small { 3 } else { 3 + rng.below(10) as u64 }, ctx, st),
        "timer" if spin => wl_timer::<Spin>(seed, n, if small { 3 } else { rounds }, ctx, st),
        "timer" => wl_timer::<Pl>(seed, n, if small { 3 } else { rounds }, ctx, st),
        _ => panic!("unknown workload {}", name),
    }
}
