//! Threaded stress monitor (DESIGN §3.3): tiny park/unpark executors on OS
//! threads, logical-step cancellation, interleave hook with injected delays,
//! a supervisor that recognises *logical* deadlocks, per-thread event logs.

pub mod workloads;

use crate::util::Rng;
use std::cell::Cell;
use std::future::Future;
use std::pin::Pin;
use std::sync::atomic::{AtomicBool, AtomicPtr, AtomicU32, AtomicU64, AtomicU8, AtomicUsize, Ordering};
use std::sync::{Arc, Mutex};
use std::task::{Context, Poll, RawWaker, RawWakerVTable, Waker};
use std::thread::Thread;
use std::time::{Duration, Instant};

pub const RUNNING: u8 = 0;
pub const PARKED: u8 = 1;
pub const DONE: u8 = 2;

/// Per task control block. Lives in an `Arc<Run>` for the duration of one run
/// (never static: a stale thread handle would make the harness itself lose
/// wake-ups, see DESIGN §3.3 lesson 2).
/// One of the four waker identities of a task. Every poll may hand the future a waker of the next generation
/// (a different data pointer, so `will_wake` is false and the primitive has to replace the stored waker while
/// other threads notify); a wake-up through a waker that is older than the one of the latest poll is *stale*:
/// it is counted and ignored, exactly like an executor that dropped the old task handle would ignore it.
pub struct GenSlot {
    pub j: u32,
    pub ctl: AtomicPtr<TaskCtl>,
}

pub struct TaskCtl {
    pub slots: [GenSlot; 4],
    /// generation of the waker handed to the latest poll
    pub cur: AtomicU32,
    pub stale_wakes: AtomicU64,
    /// park epoch: odd while the task is parked. A woken task bumps it (and stores RUNNING) *before* it
    /// clears its token, so an observer that reads the token first and the epoch / state afterwards never
    /// mistakes a task that is in the middle of waking up for one that is parked without a wake-up.
    pub epoch: AtomicU64,
    /// stamps of the future driven last (owner thread writes, the workload reads after `drive` returned):
    /// call of the first poll, return of the first poll that was Pending (0 = never pending), call of the
    /// completing poll or of the drop, return of the completing poll or of the drop
    pub t_first_call: AtomicU64,
    pub t_reg_ret: AtomicU64,
    pub t_end_call: AtomicU64,
    pub t_end_ret: AtomicU64,
    pub token: AtomicBool,
    pub state: AtomicU8,
    pub thread: Mutex<Option<Thread>>,
    pub wakes: AtomicU64,
    /// what the task is blocked on (workload specific, for the supervisor)
    pub waiting_for: AtomicU64,
}

pub struct Run {
    pub tasks: Vec<TaskCtl>,
    pub ops: AtomicU64,
    pub abort: AtomicBool,
    pub stamp: AtomicU64,
    /// hits per interleave site
    pub sites: [AtomicU64; 16],
}

impl Run {
    pub fn new(n: usize) -> Arc<Run> {
        let mut tasks = Vec::with_capacity(n);
        for _ in 0..n {
            tasks.push(TaskCtl {
                slots: [0u32, 1, 2, 3].map(|j| GenSlot { j, ctl: AtomicPtr::new(std::ptr::null_mut()) }),
                cur: AtomicU32::new(0),
                stale_wakes: AtomicU64::new(0),
                epoch: AtomicU64::new(0),
                t_first_call: AtomicU64::new(0),
                t_reg_ret: AtomicU64::new(0),
                t_end_call: AtomicU64::new(0),
                t_end_ret: AtomicU64::new(0),
                token: AtomicBool::new(false),
                state: AtomicU8::new(RUNNING),
                thread: Mutex::new(None),
                wakes: AtomicU64::new(0),
                waiting_for: AtomicU64::new(0),
            });
        }
        let run = Arc::new(Run {
            tasks,
            ops: AtomicU64::new(0),
            abort: AtomicBool::new(false),
            stamp: AtomicU64::new(1),
            sites: [const { AtomicU64::new(0) }; 16],
        });
        for t in &run.tasks {
            for s in &t.slots {
                s.ctl.store(t as *const TaskCtl as *mut TaskCtl, Ordering::Release);
            }
        }
        run
    }
    /// One Relaxed counter stamps call and return events (it must not
    /// synchronise the threads it observes).
    #[inline]
    pub fn now(&self) -> u64 {
        self.stamp.fetch_add(1, Ordering::Relaxed)
    }
}

static VT: RawWakerVTable = RawWakerVTable::new(w_clone, w_wake, w_wake, w_drop);

unsafe fn w_clone(p: *const ()) -> RawWaker {
    RawWaker::new(p, &VT)
}
unsafe fn w_wake(p: *const ()) {
    let s = &*(p as *const GenSlot);
    let t = &*(s.ctl.load(Ordering::Acquire) as *const TaskCtl);
    t.wakes.fetch_add(1, Ordering::Relaxed);
    if t.cur.load(Ordering::Acquire) % 4 != s.j {
        // not the waker of the latest poll
        t.stale_wakes.fetch_add(1, Ordering::Relaxed);
        return;
    }
    t.token.store(true, Ordering::Release);
    if let Some(th) = t.thread.lock().unwrap().as_ref() {
        th.unpark();
    }
}
unsafe fn w_drop(_p: *const ()) {}

/// The waker of generation `gen` of task `i` of this run (generations that differ by a multiple of 4 compare equal).
pub fn task_waker(run: &Arc<Run>, i: usize, gen: u32) -> Waker {
    let p = &run.tasks[i].slots[(gen % 4) as usize] as *const GenSlot as *const ();
    // Safety: the Run outlives every future that stores the waker (joined before drop)
    unsafe { Waker::from_raw(RawWaker::new(p, &VT)) }
}

thread_local! {
    static HOOK_RNG: Cell<u64> = const { Cell::new(0x1234_5678_9abc_def1) };
    static HOOK_RUN: Cell<*const Run> = const { Cell::new(std::ptr::null()) };
}

/// The interleave hook: at the windows between the crate's critical sections
/// (lock released -> wake(), fetch_sub -> close(), close() -> clear()).
pub fn interleave_hook(site: u32) {
    let r = HOOK_RUN.with(|r| r.get());
    if !r.is_null() {
        // Safety: set for the duration of the worker only
        unsafe { (*r).sites[(site as usize) & 15].fetch_add(1, Ordering::Relaxed) };
    }
    let x = HOOK_RNG.with(|c| {
        let mut v = c.get();
        v ^= v << 13;
        v ^= v >> 7;
        v ^= v << 17;
        c.set(v);
        v
    });
    match x % 10 {
        0..=5 => {}
        6..=8 => std::thread::yield_now(),
        _ => {
            if cfg!(miri) {
                std::thread::yield_now();
            } else {
                let until = Instant::now() + Duration::from_micros(1 + (x >> 8) % 40);
                while Instant::now() < until {
                    std::hint::spin_loop();
                }
            }
        }
    }
}

/// Called by the harness's own `Spin` lock around every critical section (threaded runs only).
#[inline]
pub fn lock_window() {
    if !CONC_MODE.load(Ordering::Relaxed) {
        return;
    }
    let r = HOOK_RUN.with(|r| r.get());
    if r.is_null() {
        return;
    }
    let x = HOOK_RNG.with(|c| {
        let mut v = c.get();
        v ^= v << 13;
        v ^= v >> 7;
        v ^= v << 17;
        c.set(v);
        v
    });
    match x % 16 {
        0..=10 => {}
        11..=13 => std::thread::yield_now(),
        _ => {
            if cfg!(miri) {
                std::thread::yield_now();
            } else {
                let until = Instant::now() + Duration::from_micros(1 + (x >> 8) % 25);
                while Instant::now() < until {
                    std::hint::spin_loop();
                }
            }
        }
    }
}

pub fn enter_worker(run: &Arc<Run>, i: usize, seed: u64) {
    *run.tasks[i].thread.lock().unwrap() = Some(std::thread::current());
    HOOK_RNG.with(|c| c.set(seed | 1));
    HOOK_RUN.with(|r| r.set(Arc::as_ptr(run)));
}

pub fn leave_worker(run: &Arc<Run>, i: usize) {
    run.tasks[i].state.store(DONE, Ordering::Release);
    HOOK_RUN.with(|r| r.set(std::ptr::null()));
}

pub enum Outcome<T> {
    Ready(T),
    /// gave up after the logical-step budget; the future has been dropped
    Cancelled,
    /// the supervisor aborted the run
    Aborted,
}

/// How to drive one future.
#[derive(Clone, Copy, Debug)]
pub enum Drive {
    /// wait for wake-ups until complete
    Block,
    /// poll; if pending, yield `n` times and poll again *spuriously* with a new waker identity (the future
    /// is still queued: the primitive must replace the stored waker while other threads notify), then
    /// wait for wake-ups until complete. A wake-up that goes to the replaced waker strands the task.
    Repoll(u32),
    /// poll once; if pending drop at once
    Once,
    /// poll; if pending, yield `n` times, re-poll (possibly spuriously), then drop
    Yields(u32),
    /// poll; wait for up to `n` wake-ups, then drop
    Wakes(u32),
    /// poll; if pending, yield `n` times and then drop WITHOUT polling again:
    /// the future is frequently dropped while it holds an unconsumed notification
    Abandon(u32),
}

/// Drives a boxed future on task `i` (boxed: dropping really frees the node).
pub fn drive<F: Future>(run: &Arc<Run>, i: usize, fut: F, how: Drive, waiting_for: u64) -> Outcome<F::Output> {
    let mut fut: Pin<Box<F>> = Box::pin(fut);
    let ctl = &run.tasks[i];
    // Half of the futures get a new waker identity at every poll (waker replacement under contention),
    // the others keep one identity for their whole life (`will_wake` fast path).
    let swapping = HOOK_RNG.with(|c| {
        let mut v = c.get();
        v ^= v << 13;
        v ^= v >> 7;
        v ^= v << 17;
        c.set(v);
        v & 1 == 0
    });
    let mut gen = ctl.cur.load(Ordering::Relaxed).wrapping_add(1);
    ctl.cur.store(gen, Ordering::Release);
    let mut first = true;
    let mut spurious_left = match how {
        Drive::Repoll(n) => n,
        _ => 0,
    };
    let mut force_swap = false;
    ctl.t_first_call.store(run.now(), Ordering::Relaxed);
    ctl.t_reg_ret.store(0, Ordering::Relaxed);
    // the future is dropped here, between two stamps, when it is given up
    macro_rules! give_up {
        ($o:expr) => {{
            ctl.t_end_call.store(run.now(), Ordering::Relaxed);
            drop(fut);
            ctl.t_end_ret.store(run.now(), Ordering::Relaxed);
            return $o;
        }};
    }
    let mut wakes_left = match how {
        Drive::Wakes(n) => n,
        _ => u32::MAX,
    };
    let mut yields_left = match how {
        Drive::Yields(n) => n,
        _ => 0,
    };
    loop {
        if (swapping || force_swap) && !first {
            gen = gen.wrapping_add(1);
            ctl.cur.store(gen, Ordering::Release);
        }
        first = false;
        let w = task_waker(run, i, gen);
        let mut cx = Context::from_waker(&w);
        ctl.token.store(false, Ordering::Relaxed);
        let pc = run.now();
        if let Poll::Ready(v) = fut.as_mut().poll(&mut cx) {
            ctl.t_end_call.store(pc, Ordering::Relaxed);
            ctl.t_end_ret.store(run.now(), Ordering::Relaxed);
            run.ops.fetch_add(1, Ordering::Relaxed);
            return Outcome::Ready(v);
        }
        if ctl.t_reg_ret.load(Ordering::Relaxed) == 0 {
            ctl.t_reg_ret.store(run.now(), Ordering::Relaxed);
        }
        match how {
            Drive::Once => give_up!(Outcome::Cancelled),
            Drive::Abandon(n) => {
                for _ in 0..n {
                    std::thread::yield_now();
                }
                give_up!(Outcome::Cancelled);
            }
            Drive::Repoll(_) if spurious_left > 0 => {
                for _ in 0..spurious_left {
                    std::thread::yield_now();
                }
                spurious_left = 0;
                force_swap = true;
                continue;
            }
            Drive::Yields(_) => {
                if yields_left == 0 {
                    give_up!(Outcome::Cancelled);
                }
                for _ in 0..yields_left {
                    std::thread::yield_now();
                }
                yields_left = 0;
                continue;
            }
            _ => {}
        }
        if wakes_left == 0 {
            give_up!(Outcome::Cancelled);
        }
        // park until woken
        ctl.waiting_for.store(waiting_for, Ordering::Relaxed);
        ctl.epoch.fetch_add(1, Ordering::AcqRel);
        ctl.state.store(PARKED, Ordering::Release);
        loop {
            if ctl.token.load(Ordering::Acquire) {
                // order matters for observers (see `epoch`): leave the parked state first, clear the token last
                ctl.epoch.fetch_add(1, Ordering::AcqRel);
                ctl.state.store(RUNNING, Ordering::SeqCst);
                ctl.token.store(false, Ordering::SeqCst);
                break;
            }
            if run.abort.load(Ordering::Relaxed) {
                ctl.epoch.fetch_add(1, Ordering::AcqRel);
                ctl.state.store(RUNNING, Ordering::Release);
                give_up!(Outcome::Aborted);
            }
            if cfg!(miri) {
                std::thread::park();
            } else {
                std::thread::park_timeout(Duration::from_millis(20));
            }
        }
        wakes_left = wakes_left.saturating_sub(1);
    }
}

pub fn pick_drive(rng: &mut Rng) -> Drive {
    match rng.below(12) {
        0..=2 => Drive::Block,
        3 | 4 => Drive::Repoll(rng.below(3) as u32),
        5 => Drive::Once,
        6 | 7 => Drive::Yields(1 + rng.below(3) as u32),
        8 | 9 => Drive::Abandon(1 + rng.below(4) as u32),
        _ => Drive::Wakes(1 + rng.below(2) as u32),
    }
}

#[derive(Debug, PartialEq, Eq)]
pub enum Verdict {
    Finished,
    /// every unfinished worker parked with its token clear, no progress
    AllParked,
    Watchdog,
}

/// Supervises a run until all workers are done. A deadlock is declared only on
/// the logical fact "all unfinished workers are parked, their tokens are clear,
/// and the op counter did not move over several samples"; whether that is a
/// violation is decided by the workload (is the resource available?).
pub fn supervise(run: &Arc<Run>, wall_limit: Duration) -> Verdict {
    let t0 = Instant::now();
    let mut last_ops = u64::MAX;
    let mut stable = 0;
    loop {
        let mut done = 0;
        let mut parked_clear = 0;
        for t in &run.tasks {
            // token first, state second (see `TaskCtl::epoch`)
            let clear = !t.token.load(Ordering::SeqCst);
            match t.state.load(Ordering::SeqCst) {
                DONE => done += 1,
                PARKED => {
                    if clear {
                        parked_clear += 1;
                    }
                }
                _ => {}
            }
        }
        if done == run.tasks.len() {
            return Verdict::Finished;
        }
        let ops = run.ops.load(Ordering::Relaxed) + run.stamp.load(Ordering::Relaxed);
        if done + parked_clear == run.tasks.len() && ops == last_ops {
            stable += 1;
            if stable >= 4 {
                return Verdict::AllParked;
            }
        } else {
            stable = 0;
        }
        last_ops = ops;
        if WORKER_PANICKED.load(Ordering::Relaxed) {
            // give the panicking thread a moment to unwind, then end the run
            std::thread::sleep(Duration::from_millis(5));
            return Verdict::Watchdog;
        }
        if t0.elapsed() > wall_limit {
            return Verdict::Watchdog;
        }
        std::thread::sleep(Duration::from_millis(if stable > 0 { 15 } else { 2 }));
    }
}

/// Ends an aborted run: wakes every worker so that it observes `abort`.
pub fn abort_all(run: &Arc<Run>) {
    run.abort.store(true, Ordering::Release);
    for t in &run.tasks {
        if let Some(th) = t.thread.lock().unwrap().as_ref() {
            th.unpark();
        }
    }
}

/// One logged operation of a worker.
#[derive(Clone, Copy, Debug)]
pub struct LogEv {
    pub task: u16,
    pub op: u8,
    pub arg: u64,
    pub res: u64,
    pub call: u64,
    pub ret: u64,
}

pub fn sig_of(logs: &[Vec<LogEv>]) -> u64 {
    // interleaving signature: order of (task, op) by return stamp, truncated
    let mut all: Vec<&LogEv> = logs.iter().flatten().collect();
    all.sort_by_key(|e| e.ret);
    let mut f = crate::util::Fp::new();
    for e in all.iter().take(64) {
        f.add(((e.task as u64) << 8) | e.op as u64);
    }
    f.get()
}

pub static LIVE_NODES: AtomicUsize = AtomicUsize::new(0);
/// Set by the panic hook while threaded workloads run: the supervisor ends the run at once.
pub static WORKER_PANICKED: AtomicBool = AtomicBool::new(false);
pub static CONC_MODE: AtomicBool = AtomicBool::new(false);
