//! Mutex histories: C02 (one guard), C03 (no lost wake-up), C04 (fair FIFO),
//! plus the riders C01 / C17 / C18 / C20.

use super::{fl, Core};
use crate::engine::{Ctx, Ev, Tier};
use crate::locks::{cfg_num, LockName};
use crate::slots::{call, inspect_and_check, Serial, Shape, Slots, St, View};
use crate::util::Fp;
use futures_intrusive::sync::{GenericMutex, GenericMutexGuard, GenericMutexLockFuture};
use lock_api::RawMutex;
use std::task::Poll;

crate::impl_node_access!(['a, M: RawMutex, T] GenericMutexLockFuture<'a, M, T>);

pub const CREATE: u8 = 0;
pub const POLL: u8 = 1;
pub const DROP_FUT: u8 = 2;
pub const TRY_LOCK: u8 = 3;
pub const DROP_GUARD: u8 = 4;
pub const TOUCH: u8 = 5;
pub const POLL_DONE: u8 = 6;

pub fn ev_name(e: Ev) -> String {
    match e.k {
        CREATE => format!("Create({})", e.a),
        POLL => format!("Poll({},{})", e.a, fl(e.b)),
        DROP_FUT => format!("DropFut({})", e.a),
        TRY_LOCK => "TryLock()".into(),
        DROP_GUARD => format!("DropGuard({})", e.a),
        TOUCH => "TouchGuard()".into(),
        POLL_DONE => format!("PollAfterCompletion({})", e.a),
        255 => "EndOfHistoryAudit()".into(),
        _ => format!("?({},{},{})", e.k, e.a, e.b),
    }
}

pub fn configs(tier: Tier) -> Vec<String> {
    let mut v = vec![];
    for lock in ["local", "sync", "spin"] {
        if tier == Tier::Quick && lock == "spin" {
            continue;
        }
        for fair in 0..2 {
            v.push(format!("lock={},fair={}", lock, fair));
        }
    }
    v
}

pub fn scenarios(_cfg: &str) -> Vec<Vec<Ev>> {
    let e = Ev::new;
    let mut v = base_scenarios();
    // deep queues: n lockers parked behind a guard, interior ones cancelled, the lock handed down the queue
    for (n, cancel, newest_first) in crate::hist::deep_queue_patterns(&[5, 6, 8]) {
        let mut s = vec![e(TRY_LOCK, 0, 0)];
        for i in 0..n {
            s.push(e(CREATE, i, 0));
            s.push(e(POLL, i, 0));
        }
        for c in &cancel {
            s.push(e(DROP_FUT, *c, 0));
        }
        let rest = crate::hist::deep_rest(n, &cancel);
        for round in 0..rest.len() {
            s.push(e(DROP_GUARD, 0, 0));
            if newest_first {
                for i in rest.iter().rev() {
                    s.push(e(POLL, *i, 1));
                }
            } else {
                s.push(e(POLL, rest[round], 1));
            }
        }
        v.push(s);
    }
    v
}

fn base_scenarios() -> Vec<Vec<Ev>> {
    let e = Ev::new;
    vec![
        // drop a Notified future from the middle of the queue after a waker swap
        vec![e(TRY_LOCK, 0, 0), e(CREATE, 0, 0), e(POLL, 0, 0), e(CREATE, 1, 0), e(POLL, 1, 0), e(CREATE, 2, 0), e(POLL, 2, 0), e(POLL, 1, 1), e(DROP_GUARD, 0, 0), e(DROP_FUT, 0, 0), e(DROP_FUT, 1, 0)],
        // barging between notify and re-poll, then re-queue and hand-off
        vec![e(TRY_LOCK, 0, 0), e(CREATE, 0, 0), e(POLL, 0, 0), e(CREATE, 1, 0), e(POLL, 1, 0), e(DROP_GUARD, 0, 0), e(TRY_LOCK, 0, 0), e(POLL, 0, 1), e(DROP_GUARD, 0, 0), e(DROP_FUT, 1, 0)],
        // notified future dropped while the queue behind it is non-empty
        vec![e(TRY_LOCK, 0, 0), e(CREATE, 0, 0), e(POLL, 0, 0), e(CREATE, 1, 0), e(POLL, 1, 1), e(DROP_GUARD, 0, 0), e(DROP_FUT, 0, 0), e(POLL, 1, 0)],
    ]
}

type Fut<M> = GenericMutexLockFuture<'static, M, u64>;

pub struct MutexCore<M: RawMutex + 'static> {
    owner: crate::util::Leaked<GenericMutex<M, u64>>,
    fair: bool,
    slots: Slots<Fut<M>>,
    guards: Vec<GenericMutexGuard<'static, M, u64>>,
    touched: u64,
    serial: Serial,
    view: View,
    fp: u64,
}

impl<M: RawMutex + LockName + 'static> MutexCore<M> {
    fn post(&mut self, ctx: &mut Ctx) {
        let mut regs = vec![];
        self.slots.regs(&mut regs);
        let mutex: &'static GenericMutex<M, u64> = self.owner.get();
        let slots = &self.slots;
        let fair = self.fair;
        self.view = inspect_and_check(
            ctx,
            Shape::List,
            regs,
            &mut |v| mutex.verif_inspect(v),
            &mut |r| slots.node_info(r.slot as usize),
            &|_, i| i.state == 1 || (i.state == 2 && fair),
        );
        // C02: is_locked() is true exactly while a guard is alive
        let g = self.guards.len();
        ctx.check("C02", "at-most-one-guard", g > 0, g <= 1, || format!("{} guards alive", g));
        if let Some(l) = call(ctx, "is_locked", 0, 0, || mutex.is_locked()) {
            ctx.check("C02", "is_locked-iff-guard-alive", true, l == (g == 1), || {
                format!("is_locked()={} with {} guards alive", l, g)
            });
        }
        // C03: free + pending => somebody (fair: the longest waiting one) holds a wake-up
        let pend: Vec<usize> = (0..self.slots.v.len()).filter(|i| self.slots.v[*i].pending()).collect();
        let antecedent = g == 0 && !pend.is_empty();
        if self.fair {
            let oldest = pend.iter().copied().min_by_key(|i| self.slots.v[*i].wait_start);
            let ok = oldest.map_or(true, |i| self.slots.v[i].woken());
            ctx.check("C03", "free-and-pending-implies-longest-waiter-woken", antecedent, ok, || {
                format!(
                    "fair mutex is free, pending slots {:?}, longest waiting slot {:?} holds no wake-up through the waker of its latest poll",
                    pend, oldest
                )
            });
        } else {
            let ok = pend.iter().any(|i| self.slots.v[*i].woken());
            ctx.check("C03", "free-and-pending-implies-someone-woken", antecedent, ok, || {
                format!("unfair mutex is free, pending slots {:?}, none of them has been woken since its last poll", pend)
            });
        }
        self.slots.check_terminated(ctx);
        // fingerprint
        let mut f = Fp::new();
        f.add(self.view.prim.flag as u64);
        f.add(g as u64);
        self.view.fp_queues(&mut f);
        self.slots.fp_slots(&mut f, &self.view);
        self.fp = f.get();
    }

    fn on_acquired(&mut self, ctx: &mut Ctx, who: Option<usize>, my_wait_start: u64, guards_before: usize) {
        ctx.check("C02", "lock-completes-only-while-no-guard-alive", true, guards_before == 0, || {
            format!("lock attempt completed while {} guard(s) were alive", guards_before)
        });
        if self.fair {
            let earlier: Vec<usize> = (0..self.slots.v.len())
                .filter(|j| Some(*j) != who && self.slots.v[*j].pending() && self.slots.v[*j].wait_start < my_wait_start)
                .collect();
            let any_pending = self.slots.v.iter().enumerate().any(|(j, s)| Some(j) != who && s.pending());
            ctx.check("C04", "fair-completion-respects-arrival-order", any_pending, earlier.is_empty(), || {
                format!("fair mutex: {:?} obtained the lock while slots {:?} started waiting earlier", who, earlier)
            });
        }
    }
}

impl<M: RawMutex + LockName + 'static> Core for MutexCore<M> {
    fn new(cfg: &str, k: usize, _bounded: bool) -> Self {
        let fair = cfg_num(cfg, "fair", 0) == 1;
        let owner = crate::util::Leaked::new(GenericMutex::new(0u64, fair));
        let mutex: &'static GenericMutex<M, u64> = owner.get();
        let _ = mutex;
        let mut c = MutexCore {
            owner,
            fair,
            slots: Slots::new(k, 0),
            guards: vec![],
            touched: 0,
            serial: Serial(0),
            view: View::default(),
            fp: 0,
        };
        let mut ctx = Ctx::new();
        ctx.track_distinct = false;
        c.post(&mut ctx);
        c
    }

    fn enabled(&self, out: &mut Vec<Ev>) {
        let mut created = false;
        for (i, s) in self.slots.v.iter().enumerate() {
            match &s.fut {
                None => {
                    if !created && !self.serial.exhausted() {
                        out.push(Ev::new(CREATE, i as u8, 0));
                        created = true;
                    }
                }
                Some(_) => {
                    if s.st != St::Done {
                        out.push(Ev::new(POLL, i as u8, 0));
                        out.push(Ev::new(POLL, i as u8, 1));
                    } else {
                        out.push(Ev::new(POLL_DONE, i as u8, 0));
                    }
                    out.push(Ev::new(DROP_FUT, i as u8, 0));
                }
            }
        }
        out.push(Ev::new(TRY_LOCK, 0, 0));
        for i in 0..self.guards.len() {
            out.push(Ev::new(DROP_GUARD, i as u8, 0));
        }
        if !self.guards.is_empty() {
            out.push(Ev::new(TOUCH, 0, 0));
        }
    }

    fn weight(&self, ev: Ev, profile: u8) -> u32 {
        match (ev.k, profile) {
            (POLL_DONE, _) => 1,
            (TOUCH, _) => 1,
            (DROP_FUT, 1) => 12,
            (POLL, 2) if self.slots.v[ev.a as usize].last_flavour != ev.b => 12,
            (TRY_LOCK, 3) | (DROP_GUARD, 3) => 10,
            (DROP_GUARD, _) => 6,
            _ => 4,
        }
    }

    fn step(&mut self, ev: Ev, ctx: &mut Ctx) {
        let a = ev.a as usize;
        let mutex: &'static GenericMutex<M, u64> = self.owner.get();
        match ev.k {
            CREATE => self.slots.create(a, &mut self.serial, ctx, 0, || mutex.lock()),
            POLL => {
                let before = self.guards.len();
                let was = self.slots.v[a].st;
                let ws = self.slots.v[a].wait_start;
                if let Some(Poll::Ready(g)) = self.slots.poll(a, ev.b, ctx, 0, 0) {
                    let my = if was == St::Pending { ws } else { u64::MAX };
                    self.on_acquired(ctx, Some(a), my, before);
                    self.guards.push(g);
                }
            }
            DROP_FUT => {
                let info = self.view.info_of(0, a as u8);
                let pos = self.view.queued(0, a as u8);
                ctx.count(
                    &format!(
                        "drop[state={},pos={},swapped={}]",
                        info.map_or(9, |i| i.state),
                        match pos {
                            None => "unqueued",
                            Some((_, p)) if p == 0 && self.view.queues[0].len() == 1 => "only",
                            Some((_, 0)) => "front",
                            Some((_, p)) if p + 1 == self.view.queues[0].len() => "back",
                            _ => "middle",
                        },
                        (self.slots.v[a].flavours_used == 3) as u8
                    ),
                    1,
                );
                self.slots.drop_fut(a, ctx, 0)
            }
            TRY_LOCK => {
                let before = self.guards.len();
                if let Some(Some(g)) = call(ctx, "try_lock", 0, 0, || mutex.try_lock()) {
                    self.on_acquired(ctx, None, u64::MAX, before);
                    self.guards.push(g);
                }
            }
            DROP_GUARD => {
                let g = self.guards.remove(a);
                call(ctx, "drop-guard", 0, 0, move || drop(g));
            }
            TOUCH => {
                self.touched += 1;
                let t = self.touched;
                let g = &mut self.guards[0];
                **g += 1;
                let v = **g;
                ctx.check("C02", "guard-derefs-to-the-protected-value", true, v == t, || format!("value {} != {} increments", v, t));
            }
            POLL_DONE => {
                let fut = self.slots.v[a].fut.as_mut().unwrap();
                let p = super::poll_after_done_panics(fut.as_mut());
                ctx.check("C17", "poll-after-completion-panics", true, p, || "polling a completed lock future did not panic".into());
            }
            _ => unreachable!(),
        }
        self.post(ctx);
    }

    fn fp(&self) -> u64 {
        self.fp
    }

    fn finish(mut self, ctx: &mut Ctx) {
        for i in 0..self.slots.v.len() {
            if self.slots.v[i].live() {
                self.slots.drop_fut(i, ctx, 0);
            }
        }
        while let Some(g) = self.guards.pop() {
            call(ctx, "drop-guard", 0, 0, move || drop(g));
        }
        self.post(ctx);
        let empty = self.view.queues[0].is_empty() && self.view.prim.head == 0 && self.view.prim.tail == 0;
        ctx.check("C01", "queue-empty-after-all-futures-dropped", crate::slots::inspect_on(), empty, || "wait queue not empty at the end of the history".into());
        // Safety: no future and no guard borrows the mutex any more
        unsafe { self.owner.reclaim() };
    }
}

crate::lock_dispatch!(MutexDriver, MutexCore, "mutex", crate::hist::mutex::configs, crate::hist::mutex::ev_name, crate::hist::mutex::scenarios);
