//! Single-thread history drivers, one per primitive family.

pub mod event;
pub mod mpmc;
pub mod mutex;
pub mod oneshot;
pub mod semaphore;
pub mod state;
pub mod timer;

use crate::engine::{Ctx, Ev};

/// What a lock-generic driver core implements; `lock_dispatch!` turns it into
/// an `engine::Driver` that selects the lock flavour from the configuration.
pub trait Core: Sized {
    fn new(cfg: &str, k: usize, bounded: bool) -> Self;
    fn enabled(&self, out: &mut Vec<Ev>);
    fn weight(&self, ev: Ev, profile: u8) -> u32;
    fn step(&mut self, ev: Ev, ctx: &mut Ctx);
    fn fp(&self) -> u64;
    fn terminal(&self) -> bool {
        false
    }
    fn finish(self, ctx: &mut Ctx);
}

#[macro_export]
macro_rules! lock_dispatch {
    ($name:ident, $core:ident, $dname:expr, $configs:path, $evname:path, $scen:path) => {
        pub enum $name {
            L($core<$crate::locks::Noop>),
            S($core<$crate::locks::Pl>),
            P($core<$crate::locks::Spin>),
        }
        impl $crate::engine::Driver for $name {
            fn name() -> &'static str {
                $dname
            }
            fn configs(tier: $crate::engine::Tier) -> Vec<String> {
                $configs(tier)
            }
            fn new(cfg: &str, k: usize, bounded: bool) -> Self {
                match $crate::locks::cfg_get(cfg, "lock") {
                    Some("local") => $name::L(<$core<$crate::locks::Noop> as $crate::hist::Core>::new(cfg, k, bounded)),
                    Some("spin") => $name::P(<$core<$crate::locks::Spin> as $crate::hist::Core>::new(cfg, k, bounded)),
                    _ => $name::S(<$core<$crate::locks::Pl> as $crate::hist::Core>::new(cfg, k, bounded)),
                }
            }
            fn enabled(&self, out: &mut Vec<$crate::engine::Ev>) {
                match self {
                    $name::L(c) => $crate::hist::Core::enabled(c, out),
                    $name::S(c) => $crate::hist::Core::enabled(c, out),
                    $name::P(c) => $crate::hist::Core::enabled(c, out),
                }
            }
            fn weight(&self, ev: $crate::engine::Ev, profile: u8) -> u32 {
                match self {
                    $name::L(c) => $crate::hist::Core::weight(c, ev, profile),
                    $name::S(c) => $crate::hist::Core::weight(c, ev, profile),
                    $name::P(c) => $crate::hist::Core::weight(c, ev, profile),
                }
            }
            fn step(&mut self, ev: $crate::engine::Ev, ctx: &mut $crate::engine::Ctx) {
                match self {
                    $name::L(c) => $crate::hist::Core::step(c, ev, ctx),
                    $name::S(c) => $crate::hist::Core::step(c, ev, ctx),
                    $name::P(c) => $crate::hist::Core::step(c, ev, ctx),
                }
            }
            fn fp(&self) -> u64 {
                match self {
                    $name::L(c) => $crate::hist::Core::fp(c),
                    $name::S(c) => $crate::hist::Core::fp(c),
                    $name::P(c) => $crate::hist::Core::fp(c),
                }
            }
            fn terminal(&self) -> bool {
                match self {
                    $name::L(c) => $crate::hist::Core::terminal(c),
                    $name::S(c) => $crate::hist::Core::terminal(c),
                    $name::P(c) => $crate::hist::Core::terminal(c),
                }
            }
            fn finish(self, ctx: &mut $crate::engine::Ctx) {
                match self {
                    $name::L(c) => $crate::hist::Core::finish(c, ctx),
                    $name::S(c) => $crate::hist::Core::finish(c, ctx),
                    $name::P(c) => $crate::hist::Core::finish(c, ctx),
                }
            }
            fn ev_name(ev: $crate::engine::Ev) -> String {
                $evname(ev)
            }
            fn scenarios(cfg: &str) -> Vec<Vec<$crate::engine::Ev>> {
                $scen(cfg)
            }
        }
    };
}

/// The poll-after-completion sub-test (C17): the only place where the
/// contract is broken on purpose. Returns true if the poll panicked.
pub fn poll_after_done_panics<F: std::future::Future>(fut: std::pin::Pin<&mut F>) -> bool {
    let w = crate::wakers::waker(1);
    let r = crate::util::catch(|| {
        let mut cx = std::task::Context::from_waker(&w);
        let _ = fut.poll(&mut cx);
    });
    r.is_err()
}

/// Deep wait queues (DESIGN §11, correction 20): `n` futures pending at the same time, one or two *interior* ones
/// cancelled (so that both neighbours of the removed node are interior nodes as well), the rest served oldest
/// first or polled newest first. Returns (n, cancelled slots in cancellation order, newest first).
pub fn deep_queue_patterns(ns: &[u8]) -> Vec<(u8, Vec<u8>, bool)> {
    let mut v = vec![];
    for &n in ns {
        for c in 1..n - 1 {
            v.push((n, vec![c], false));
            v.push((n, vec![c], true));
        }
        for c in 1..n - 2 {
            v.push((n, vec![c, c + 1], false));
            v.push((n, vec![c + 1, c], true));
        }
    }
    v
}

/// The slots of a deep-queue pattern that stay, in arrival order.
pub fn deep_rest(n: u8, cancel: &[u8]) -> Vec<u8> {
    (0..n).filter(|i| !cancel.contains(i)).collect()
}

pub fn fl(b: u8) -> &'static str {
    if b == 0 {
        "A"
    } else {
        "B"
    }
}
