//! MPMC channel histories (borrowed, shared, streams; array / fixed-heap /
//! growing-heap buffers; capacities 0,1,2): C08 (exactly once), C09 (bounded
//! FIFO / rendezvous), C10 (no lost wake-up), C11 (close + handle lifecycle),
//! C17 (streams), riders C01 / C18 / C20.

use super::fl;
use crate::engine::{Ctx, Driver, Ev, Tier};
use crate::locks::{cfg_get, cfg_num, Noop, Pl, Spin};
use crate::payload::{self, BVal, Payload, Val};
use crate::slots::{c18, call, count_drop, inspect_and_check, NodeAccess, Reg, Serial, Shape, Slots, St, View};
use crate::util::{catch, Fp};
use crate::{alloc, wakers};
use futures_core::future::FusedFuture;
use futures_core::stream::{FusedStream, Stream};
use futures_intrusive::buffer::{ArrayBuf, FixedHeapBuf, GrowingHeapBuf, RingBuf};
use futures_intrusive::channel::shared::{
    generic_channel, ChannelReceiveFuture as SRecv, ChannelSendFuture as SSend, GenericReceiver, GenericSender, SharedStream,
};
use futures_intrusive::channel::{
    ChannelReceiveFuture, ChannelSendError, ChannelSendFuture, ChannelStream, CloseStatus, GenericChannel, TryReceiveError, TrySendError,
};
use futures_intrusive::verif::{NodeInfo, Visit};
use lock_api::RawMutex;
use std::collections::VecDeque;
use std::future::Future;
use std::pin::Pin;
use std::task::{Context, Poll};

crate::impl_node_access!(
    ['a, M, T] ChannelSendFuture<'a, M, T>,
    [M, T] SSend<M, T>,
);

pub const SEND_CREATE: u8 = 0;
pub const SEND_POLL: u8 = 1;
pub const SEND_DROP: u8 = 2;
pub const SEND_CANCEL: u8 = 3;
pub const RECV_CREATE: u8 = 4;
pub const RECV_POLL: u8 = 5;
pub const RECV_DROP: u8 = 6;
pub const TRY_SEND: u8 = 7;
pub const TRY_RECV: u8 = 8;
pub const CLOSE: u8 = 9;
pub const STREAM_CREATE: u8 = 10;
pub const STREAM_POLL: u8 = 11;
pub const STREAM_DROP: u8 = 12;
pub const CLONE_TX: u8 = 13;
pub const DROP_TX: u8 = 14;
pub const CLONE_RX: u8 = 15;
pub const DROP_RX: u8 = 16;
pub const POLL_DONE: u8 = 17;

pub fn ev_name(e: Ev) -> String {
    match e.k {
        SEND_CREATE => format!("Send({})", e.a),
        SEND_POLL => format!("PollSend({},{})", e.a, fl(e.b)),
        SEND_DROP => format!("DropSend({})", e.a),
        SEND_CANCEL => format!("CancelSend({})", e.a),
        RECV_CREATE => format!("Receive({})", e.a),
        RECV_POLL => format!("PollRecv({},{})", e.a, fl(e.b)),
        RECV_DROP => format!("DropRecv({})", e.a),
        TRY_SEND => "TrySend()".into(),
        TRY_RECV => "TryReceive()".into(),
        CLOSE => format!("Close(via={})", if e.a == 0 { "sender" } else { "receiver" }),
        STREAM_CREATE => "Stream()".into(),
        STREAM_POLL => format!("PollStream({})", fl(e.b)),
        STREAM_DROP => "DropStream()".into(),
        CLONE_TX => "CloneSender()".into(),
        DROP_TX => format!("DropSender({})", e.a),
        CLONE_RX => "CloneReceiver()".into(),
        DROP_RX => format!("DropReceiver({})", e.a),
        POLL_DONE => format!("PollAfterCompletion(table={},{})", e.b, e.a),
        255 => "EndOfHistoryAudit()".into(),
        _ => format!("?({},{},{})", e.k, e.a, e.b),
    }
}

pub fn configs(tier: Tier) -> Vec<String> {
    let mut v = vec![];
    if !cfg!(miri) {
        // large backing arrays: a user defined array of 384 elements, and the largest built-in one
        v.push("lock=local,shared=0,buf=user,cap=384,payload=val,nobfs=1".to_string());
        v.push("lock=local,shared=0,buf=huge,cap=65536,payload=val,nobfs=1".to_string());
        v.push("lock=local,shared=0,buf=user70k,cap=70000,payload=val,nobfs=1".to_string());
        // more handles per side than a 16 bit counter can count
        v.push("lock=sync,shared=1,buf=fixed,cap=2,payload=val,handles=70000,nobfs=1".to_string());
        v.push("lock=local,shared=1,buf=huge,cap=65536,payload=val,nobfs=1".to_string());
    }
    for lock in ["local", "sync", "spin"] {
        for shared in 0..2 {
            for buf in ["array", "fixed", "growing"] {
                for cap in [0, 1, 2, 3, 5] {
                    let quick_ok = match (lock, buf) {
                        ("local", "array") => cap != 5,
                        ("sync", "fixed") => cap == 5 && shared == 0,
                        ("local", "fixed") => cap == 1,
                        ("sync", "growing") => cap != 1,
                        ("sync", "array") => cap == 1 && shared == 1,
                        _ => false,
                    };
                    if tier == Tier::Quick && !quick_ok {
                        continue;
                    }
                    if tier == Tier::Thorough && lock == "spin" && buf != "fixed" {
                        continue;
                    }
                    v.push(format!("lock={},shared={},buf={},cap={},payload=val", lock, shared, buf, cap));
                }
            }
        }
    }
    v
}

pub fn configs_bval(_tier: Tier) -> Vec<String> {
    let mut v = vec![];
    for shared in 0..2 {
        for (buf, cap) in [("array", 0), ("array", 2), ("fixed", 1), ("growing", 2)] {
            v.push(format!("lock=sync,shared={},buf={},cap={},payload=bval", shared, buf, cap));
        }
    }
    v
}

pub fn scenarios(cfg: &str) -> Vec<Vec<Ev>> {
    let e = Ev::new;
    let cap = cfg_num(cfg, "cap", 0);
    let mut v = vec![];
    if cfg_num(cfg, "handles", 0) > 65536 {
        // 65537 receiver handles, one dropped: the channel must stay open and keep its values; the same for senders
        let mut s = vec![e(TRY_SEND, 0, 0), e(TRY_SEND, 0, 0)];
        s.extend(vec![e(CLONE_RX, 0, 0); 65536]);
        s.extend([e(DROP_RX, 0, 0), e(TRY_RECV, 0, 0)]);
        s.extend(vec![e(CLONE_TX, 0, 0); 65536]);
        s.extend([e(DROP_TX, 0, 0), e(TRY_SEND, 0, 0), e(TRY_RECV, 0, 0), e(TRY_RECV, 0, 0)]);
        return vec![s];
    }
    if cap > 100 && cfg_num(cfg, "shared", 0) == 1 {
        // fill completely, then the last receiver handle goes away: everything must be discarded at once
        let mut s = vec![e(TRY_SEND, 0, 0); cap as usize];
        s.push(e(DROP_RX, 0, 0));
        s.push(e(TRY_SEND, 0, 0));
        return vec![s];
    }
    if cap > 100 {
        // fill the channel completely, one more try_send must be Full, drain half, refill, drain in order
        let mut s = vec![e(TRY_SEND, 0, 0); cap as usize + 1];
        s.extend(vec![e(TRY_RECV, 0, 0); cap as usize / 2 + 2]);
        s.extend(vec![e(TRY_SEND, 0, 0); cap as usize / 2 + 3]);
        s.extend(vec![e(TRY_RECV, 0, 0); cap as usize + 2]);
        return vec![s];
    }
    if cap == 0 {
        // rendezvous: two parked senders, cancel the older one, receiver takes the younger
        v.push(vec![e(SEND_CREATE, 0, 0), e(SEND_POLL, 0, 0), e(SEND_CREATE, 1, 0), e(SEND_POLL, 1, 0), e(SEND_POLL, 1, 1), e(SEND_DROP, 0, 0), e(RECV_CREATE, 0, 0), e(RECV_POLL, 0, 0), e(SEND_POLL, 1, 0)]);
        // receiver first, sender registers -> wakes receiver; notified receiver dropped -> forward
        v.push(vec![e(RECV_CREATE, 0, 0), e(RECV_POLL, 0, 0), e(RECV_CREATE, 1, 0), e(RECV_POLL, 1, 0), e(SEND_CREATE, 0, 0), e(SEND_POLL, 0, 0), e(RECV_DROP, 0, 0), e(RECV_POLL, 1, 1), e(SEND_POLL, 0, 1)]);
    } else {
        // fill, park two senders, receive: refill from the oldest parked sender, cancel in the middle
        let mut s = vec![];
        for _ in 0..cap {
            s.push(e(TRY_SEND, 0, 0));
        }
        s.extend([e(SEND_CREATE, 0, 0), e(SEND_POLL, 0, 0), e(SEND_CREATE, 1, 0), e(SEND_POLL, 1, 0), e(TRY_RECV, 0, 0), e(SEND_CANCEL, 1, 0), e(SEND_POLL, 0, 1), e(TRY_SEND, 0, 0), e(TRY_RECV, 0, 0), e(TRY_RECV, 0, 0)]);
        v.push(s);
        // notified receiver, value stolen, re-register, close with parked sender and notified receiver
        v.push(vec![e(RECV_CREATE, 0, 0), e(RECV_POLL, 0, 0), e(RECV_CREATE, 1, 0), e(RECV_POLL, 1, 0), e(TRY_SEND, 0, 0), e(TRY_RECV, 0, 0), e(RECV_POLL, 0, 1), e(TRY_SEND, 0, 0), e(RECV_DROP, 1, 0), e(CLOSE, 0, 0), e(RECV_POLL, 0, 0)]);
    }
    // a stream queued behind cap+1 plain receivers while cap+2 senders arrive (two of them block): every receiver
    // takes its value, then the stream is polled; (b) the same with a close() while one sender is blocked
    if cap <= 5 {
        let c = cap as u8;
        for close in [false, true] {
            let mut s = vec![];
            for i in 0..=c {
                s.push(e(RECV_CREATE, i, 0));
                s.push(e(RECV_POLL, i, 0));
            }
            s.push(e(STREAM_CREATE, 0, 0));
            s.push(e(STREAM_POLL, 0, 0));
            let senders = if close { c + 1 } else { c + 2 };
            for j in 0..senders {
                s.push(e(SEND_CREATE, j, 0));
                s.push(e(SEND_POLL, j, 0));
            }
            if close {
                s.push(e(CLOSE, 0, 0));
                s.push(e(SEND_POLL, c, 1));
            }
            for i in 0..=c {
                s.push(e(RECV_POLL, i, 1));
            }
            s.push(e(STREAM_POLL, 0, 1));
            for j in 0..senders {
                s.push(e(SEND_POLL, j, 1));
            }
            s.push(e(STREAM_POLL, 0, 0));
            if !close {
                s.push(e(CLOSE, 0, 0));
            }
            s.push(e(STREAM_POLL, 0, 1));
            s.push(e(STREAM_POLL, 0, 1));
            v.push(s);
        }
    }
    // deep queues (receivers): n receivers parked on the empty channel, interior ones cancelled, then one value
    // per remaining receiver arrives through send futures; at the end the channel is closed
    for (n, cancel, newest_first) in crate::hist::deep_queue_patterns(&[5, 6]) {
        let mut s = vec![];
        for i in 0..n {
            s.push(e(RECV_CREATE, i, 0));
            s.push(e(RECV_POLL, i, (i % 2) as u8));
        }
        for c in &cancel {
            s.push(e(RECV_DROP, *c, 0));
        }
        let rest = crate::hist::deep_rest(n, &cancel);
        for (j, r) in rest.iter().enumerate() {
            if j + 1 == rest.len() {
                s.push(e(CLOSE, 0, 0));
            } else {
                s.push(e(SEND_CREATE, j as u8, 0));
                s.push(e(SEND_POLL, j as u8, 0));
            }
            if newest_first {
                for i in rest.iter().rev() {
                    s.push(e(RECV_POLL, *i, 1));
                }
            } else {
                s.push(e(RECV_POLL, *r, 1));
            }
            s.push(e(SEND_POLL, j as u8, 1));
        }
        v.push(s);
    }
    // deep queues (senders): buffer full, n senders parked, interior ones dropped / cancelled, then the receiver drains
    for (n, cancel, newest_first) in crate::hist::deep_queue_patterns(&[5, 6]) {
        let mut s = vec![e(TRY_SEND, 0, 0); cap as usize];
        for i in 0..n {
            s.push(e(SEND_CREATE, i, 0));
            s.push(e(SEND_POLL, i, (i % 2) as u8));
        }
        for (x, c) in cancel.iter().enumerate() {
            s.push(e(if x == 0 { SEND_DROP } else { SEND_CANCEL }, *c, 0));
        }
        let rest = crate::hist::deep_rest(n, &cancel);
        for round in 0..rest.len() + cap as usize {
            if cap == 0 {
                s.push(e(RECV_CREATE, 0, 0));
                s.push(e(RECV_POLL, 0, 0));
                s.push(e(RECV_DROP, 0, 0));
            } else {
                s.push(e(TRY_RECV, 0, 0));
            }
            if newest_first {
                for i in rest.iter().rev() {
                    s.push(e(SEND_POLL, *i, 1));
                }
            } else if round < rest.len() {
                s.push(e(SEND_POLL, rest[round], 1));
            }
        }
        v.push(s);
    }
    v.push(vec![e(STREAM_CREATE, 0, 0), e(STREAM_POLL, 0, 0), e(SEND_CREATE, 0, 0), e(SEND_POLL, 0, 0), e(STREAM_POLL, 0, 1), e(SEND_POLL, 0, 0), e(CLOSE, 1, 0), e(STREAM_POLL, 0, 0), e(STREAM_POLL, 0, 0)]);
    v
}

// ------------------------------------------------------------ future wrappers
pub enum SFut<M: 'static, P: 'static> {
    B(ChannelSendFuture<'static, M, P>),
    S(SSend<M, P>),
}
pub enum RFut<M: 'static, P: 'static> {
    B(ChannelReceiveFuture<'static, M, P>),
    S(SRecv<M, P>),
}

impl<M: 'static, P: 'static> SFut<M, P> {
    pub fn cancel(self: Pin<&mut Self>) -> Option<P> {
        // Safety: cancel() does not move the future (the crate's own tests do the same)
        unsafe {
            match self.get_unchecked_mut() {
                SFut::B(f) => f.cancel(),
                SFut::S(f) => f.cancel(),
            }
        }
    }
}

macro_rules! wrap_future {
    ($name:ident, $out:ty) => {
        impl<M: 'static, P: 'static> Future for $name<M, P> {
            type Output = $out;
            fn poll(self: Pin<&mut Self>, cx: &mut Context<'_>) -> Poll<Self::Output> {
                // Safety: structural projection, nothing is moved
                unsafe {
                    match self.get_unchecked_mut() {
                        $name::B(f) => Pin::new_unchecked(f).poll(cx),
                        $name::S(f) => Pin::new_unchecked(f).poll(cx),
                    }
                }
            }
        }
        impl<M: 'static, P: 'static> FusedFuture for $name<M, P> {
            fn is_terminated(&self) -> bool {
                match self {
                    $name::B(f) => f.is_terminated(),
                    $name::S(f) => f.is_terminated(),
                }
            }
        }
        impl<M: 'static, P: 'static> NodeAccess for $name<M, P> {
            fn node_addr(&self) -> usize {
                match self {
                    $name::B(f) => f.verif_node_addr(),
                    $name::S(f) => f.verif_node_addr(),
                }
            }
            unsafe fn node_info(&self) -> NodeInfo {
                match self {
                    $name::B(f) => f.verif_node_info(),
                    $name::S(f) => f.verif_node_info(),
                }
            }
        }
    };
}
wrap_future!(SFut, Result<(), ChannelSendError<P>>);
wrap_future!(RFut, Option<P>);

// ------------------------------------------------------------ channel API (buffer type erased)
pub trait ChanApi<M: 'static, P: 'static> {
    fn shared(&self) -> bool;
    fn cap(&self) -> usize;
    fn growing(&self) -> bool;
    fn heap_buf(&self) -> bool;
    fn n_tx(&self) -> usize;
    fn n_rx(&self) -> usize;
    fn send(&self, v: P) -> SFut<M, P>;
    fn receive(&self) -> RFut<M, P>;
    fn try_send(&self, v: P) -> Result<(), TrySendError<P>>;
    fn try_receive(&self) -> Result<P, TryReceiveError>;
    fn close(&self, via_rx: bool) -> CloseStatus;
    fn inspect(&self, v: &mut dyn FnMut(Visit) -> bool);
    fn clone_tx(&mut self) {}
    fn drop_tx(&mut self, _i: usize) {}
    fn clone_rx(&mut self) {}
    fn drop_rx(&mut self, _i: usize) {}
    fn stream_create(&mut self);
    fn has_stream(&self) -> bool;
    fn stream_poll(&mut self, cx: &mut Context<'_>) -> Poll<Option<P>>;
    fn stream_drop(&mut self);
    fn stream_terminated(&self) -> bool;
    fn stream_node(&self) -> Option<(usize, NodeInfo)>;
    fn destroy(self: Box<Self>);
}

pub struct BChan<M: RawMutex + 'static, P: 'static, A: RingBuf<Item = P> + 'static> {
    owner: crate::util::Leaked<GenericChannel<M, P, A>>,
    stream: Option<Pin<Box<ChannelStream<'static, M, P, A>>>>,
    cap: usize,
    growing: bool,
    heap: bool,
}

impl<M: RawMutex + 'static, P: 'static, A: RingBuf<Item = P> + 'static> ChanApi<M, P> for BChan<M, P, A> {
    fn shared(&self) -> bool {
        false
    }
    fn cap(&self) -> usize {
        self.cap
    }
    fn growing(&self) -> bool {
        self.growing
    }
    fn heap_buf(&self) -> bool {
        self.heap
    }
    fn n_tx(&self) -> usize {
        1
    }
    fn n_rx(&self) -> usize {
        1
    }
    fn send(&self, v: P) -> SFut<M, P> {
        SFut::B(self.owner.get().send(v))
    }
    fn receive(&self) -> RFut<M, P> {
        RFut::B(self.owner.get().receive())
    }
    fn try_send(&self, v: P) -> Result<(), TrySendError<P>> {
        self.owner.get().try_send(v)
    }
    fn try_receive(&self) -> Result<P, TryReceiveError> {
        self.owner.get().try_receive()
    }
    fn close(&self, _via_rx: bool) -> CloseStatus {
        self.owner.get().close()
    }
    fn inspect(&self, v: &mut dyn FnMut(Visit) -> bool) {
        self.owner.get().verif_inspect(v)
    }
    fn stream_create(&mut self) {
        self.stream = Some(Box::pin(self.owner.get().stream()));
    }
    fn has_stream(&self) -> bool {
        self.stream.is_some()
    }
    fn stream_poll(&mut self, cx: &mut Context<'_>) -> Poll<Option<P>> {
        self.stream.as_mut().unwrap().as_mut().poll_next(cx)
    }
    fn stream_drop(&mut self) {
        self.stream = None;
    }
    fn stream_terminated(&self) -> bool {
        self.stream.as_ref().unwrap().is_terminated()
    }
    fn stream_node(&self) -> Option<(usize, NodeInfo)> {
        let f = self.stream.as_ref()?.verif_future()?;
        // Safety: single threaded
        Some((f.verif_node_addr(), unsafe { f.verif_node_info() }))
    }
    fn destroy(self: Box<Self>) {
        let me = *self;
        drop(me.stream);
        // Safety: all futures and the stream have been dropped
        unsafe { me.owner.reclaim() }
    }
}

pub struct SChan<M: RawMutex + 'static, P: Send + 'static, A: RingBuf<Item = P> + 'static> {
    tx: Vec<GenericSender<M, P, A>>,
    rx: Vec<GenericReceiver<M, P, A>>,
    stream: Option<Pin<Box<SharedStream<M, P, A>>>>,
    chan: *const GenericChannel<M, P, A>,
    cap: usize,
    growing: bool,
    heap: bool,
}

impl<M: RawMutex + 'static, P: Send + 'static, A: RingBuf<Item = P> + 'static> ChanApi<M, P> for SChan<M, P, A> {
    fn shared(&self) -> bool {
        true
    }
    fn cap(&self) -> usize {
        self.cap
    }
    fn growing(&self) -> bool {
        self.growing
    }
    fn heap_buf(&self) -> bool {
        self.heap
    }
    fn n_tx(&self) -> usize {
        self.tx.len()
    }
    fn n_rx(&self) -> usize {
        self.rx.len()
    }
    fn send(&self, v: P) -> SFut<M, P> {
        SFut::S(self.tx[0].send(v))
    }
    fn receive(&self) -> RFut<M, P> {
        RFut::S(self.rx[0].receive())
    }
    fn try_send(&self, v: P) -> Result<(), TrySendError<P>> {
        self.tx[0].try_send(v)
    }
    fn try_receive(&self) -> Result<P, TryReceiveError> {
        self.rx[0].try_receive()
    }
    fn close(&self, via_rx: bool) -> CloseStatus {
        if via_rx {
            self.rx[0].close()
        } else {
            self.tx[0].close()
        }
    }
    fn inspect(&self, v: &mut dyn FnMut(Visit) -> bool) {
        // Safety: only called while a handle, the stream or an unfinished future keeps the channel alive
        unsafe { (*self.chan).verif_inspect(v) }
    }
    fn clone_tx(&mut self) {
        let c = self.tx[0].clone();
        self.tx.push(c);
    }
    fn drop_tx(&mut self, i: usize) {
        self.tx.remove(i);
    }
    fn clone_rx(&mut self) {
        let c = self.rx[0].clone();
        self.rx.push(c);
    }
    fn drop_rx(&mut self, i: usize) {
        self.rx.remove(i);
    }
    fn stream_create(&mut self) {
        // the stream owns its own receiver handle
        let r = self.rx[0].clone();
        self.stream = Some(Box::pin(r.into_stream()));
    }
    fn has_stream(&self) -> bool {
        self.stream.is_some()
    }
    fn stream_poll(&mut self, cx: &mut Context<'_>) -> Poll<Option<P>> {
        self.stream.as_mut().unwrap().as_mut().poll_next(cx)
    }
    fn stream_drop(&mut self) {
        self.stream = None;
    }
    fn stream_terminated(&self) -> bool {
        self.stream.as_ref().unwrap().is_terminated()
    }
    fn stream_node(&self) -> Option<(usize, NodeInfo)> {
        let f = self.stream.as_ref()?.verif_future()?;
        // Safety: single threaded
        Some((f.verif_node_addr(), unsafe { f.verif_node_info() }))
    }
    fn destroy(self: Box<Self>) {
        drop(self)
    }
}

fn make_api<M: RawMutex + 'static, P: Payload>(cfg: &str) -> Box<dyn ChanApi<M, P>> {
    let shared = cfg_num(cfg, "shared", 0) == 1;
    let cap = cfg_num(cfg, "cap", 1) as usize;
    let buf = cfg_get(cfg, "buf").unwrap_or("array");
    fn b<M: RawMutex + 'static, P: Payload, A: RingBuf<Item = P> + 'static>(cap: usize, growing: bool, heap: bool) -> Box<dyn ChanApi<M, P>> {
        let owner = crate::util::Leaked::new(GenericChannel::with_capacity(cap));
        let ch: &'static GenericChannel<M, P, A> = owner.get();
        let _ = ch;
        Box::new(BChan { owner, stream: None, cap, growing, heap })
    }
    // handle bags are pre-sized (their growth must not be mistaken for an allocation of the crate)
    let hcap = cfg_num(cfg, "handles", 0) as usize + 8;
    fn s_impl<M: RawMutex + 'static, P: Payload, A: RingBuf<Item = P> + Send + 'static>(cap: usize, growing: bool, heap: bool, hcap: usize) -> Box<dyn ChanApi<M, P>> {
        let (t, r) = generic_channel::<M, P, A>(cap);
        let chan = t.verif_channel() as *const _;
        let mut tx = Vec::with_capacity(hcap);
        let mut rx = Vec::with_capacity(hcap);
        tx.push(t);
        rx.push(r);
        Box::new(SChan { tx, rx, stream: None, chan, cap, growing, heap })
    }
    match (shared, buf, cap) {
        (false, "array", 0) => b::<M, P, ArrayBuf<P, [P; 0]>>(0, false, false),
        (false, "array", 1) => b::<M, P, ArrayBuf<P, [P; 1]>>(1, false, false),
        (false, "array", 2) => b::<M, P, ArrayBuf<P, [P; 2]>>(2, false, false),
        (false, "array", 3) => b::<M, P, ArrayBuf<P, [P; 3]>>(3, false, false),
        (false, "array", _) => b::<M, P, ArrayBuf<P, [P; 5]>>(5, false, false),
        (false, "user", _) => b::<M, P, ArrayBuf<P, crate::ds::ringbuf::Arr384<P>>>(384, false, false),
        (false, "huge", _) => b::<M, P, ArrayBuf<P, [P; 65536]>>(65536, false, false),
        (false, "user70k", _) => b::<M, P, ArrayBuf<P, crate::ds::ringbuf::Arr70000<P>>>(70000, false, false),
        (false, "fixed", c) => b::<M, P, FixedHeapBuf<P>>(c, false, c > 0),
        (false, _, c) => b::<M, P, GrowingHeapBuf<P>>(c, true, true),
        (true, "array", 0) => s_impl::<M, P, ArrayBuf<P, [P; 0]>>(0, false, false, hcap),
        (true, "array", 1) => s_impl::<M, P, ArrayBuf<P, [P; 1]>>(1, false, false, hcap),
        (true, "array", 2) => s_impl::<M, P, ArrayBuf<P, [P; 2]>>(2, false, false, hcap),
        (true, "array", 3) => s_impl::<M, P, ArrayBuf<P, [P; 3]>>(3, false, false, hcap),
        (true, "array", _) => s_impl::<M, P, ArrayBuf<P, [P; 5]>>(5, false, false, hcap),
        (true, "huge", _) => s_impl::<M, P, ArrayBuf<P, [P; 65536]>>(65536, false, false, hcap),
        (true, "fixed", c) => s_impl::<M, P, FixedHeapBuf<P>>(c, false, c > 0, hcap),
        (true, _, c) => s_impl::<M, P, GrowingHeapBuf<P>>(c, true, true, hcap),
    }
}

// ------------------------------------------------------------ model
#[derive(Clone, Copy, PartialEq, Eq, Debug)]
enum Phase {
    NotStarted,
    Parked,
    Accepted,
    ClosedOut,
    Finished,
}

#[derive(Clone, Copy, Default)]
struct StreamSlot {
    live: bool,
    pending: bool,
    terminated: bool,
    last_poll: u64,
    last_waker: usize,
    serial: u32,
    flavours: u8,
    last_fl: u8,
}

impl StreamSlot {
    fn woken(&self) -> bool {
        self.last_waker != 0 && wakers::last_wake(self.last_waker) > self.last_poll
    }
}

pub struct MpmcCore<M: RawMutex + 'static, P: Payload> {
    api: Option<Box<dyn ChanApi<M, P>>>,
    cap: usize,
    closed: bool,
    /// values inside the channel in send-effect order; Some(slot) = still parked in that send future
    order: VecDeque<(u32, Option<usize>)>,
    sends: Slots<SFut<M, P>>,
    phase: Vec<Phase>,
    recvs: Slots<RFut<M, P>>,
    stream: StreamSlot,
    /// tags that have not been dropped yet (expected drop count 0)
    outstanding: Vec<u32>,
    base: u32,
    next_tag: u32,
    ok_unreceived: usize,
    serial: Serial,
    view: View,
    fp: u64,
    bounded: bool,
    /// most handles per side the generator creates (5; 70000 in the many-handles configuration)
    max_handles: usize,
    free: u64,
}

impl<M: RawMutex + 'static, P: Payload> MpmcCore<M, P> {
    fn api(&self) -> &dyn ChanApi<M, P> {
        self.api.as_deref().unwrap()
    }
    fn api_mut(&mut self) -> &mut Box<dyn ChanApi<M, P>> {
        self.api.as_mut().unwrap()
    }
    fn big(&self) -> bool {
        self.cap > 100
    }
    fn new_tag(&mut self) -> u32 {
        let t = self.next_tag;
        self.next_tag += 1;
        self.outstanding.push(t);
        t
    }
    fn buffered(&self) -> usize {
        self.order.len().min(self.cap)
    }
    fn holders(&self) -> usize {
        if !self.api().shared() {
            return 1;
        }
        self.api().n_tx()
            + self.api().n_rx()
            + self.api().has_stream() as usize
            + self.sends.v.iter().filter(|s| s.live() && s.st != St::Done).count()
            + self.recvs.v.iter().filter(|s| s.live() && s.st != St::Done).count()
    }
    /// deallocations that the next crate call may legitimately perform
    fn dealloc_allowance(&self, releases_holder: bool) -> u64 {
        if P::ALLOCATES {
            return u64::MAX;
        }
        if releases_holder && self.api().shared() && self.holders() == 1 {
            // the Arc'ed state and a heap backed buffer
            1 + self.api().heap_buf() as u64
        } else {
            0
        }
    }
    fn alloc_allowance(&self, may_push: bool) -> (u64, u64) {
        if P::ALLOCATES {
            return (u64::MAX, u64::MAX);
        }
        if may_push && self.api().growing() {
            // documented exception: growth of a GrowingHeapBuf (realloc = 1 alloc + 1 dealloc)
            (1, 1)
        } else {
            (0, 0)
        }
    }

    /// A tag left the harness' world: it must have been dropped exactly once by now.
    fn expect_dropped(&mut self, ctx: &mut Ctx, tag: u32, why: &'static str) {
        let d = payload::drops(tag);
        ctx.check("C08", "value-dropped-exactly-once-when-discarded", true, d == 1, || format!("tag {} has been dropped {} times after {}", tag, d, why));
        if let Some(p) = self.outstanding.iter().rposition(|t| *t == tag) {
            self.outstanding.swap_remove(p);
        }
    }

    /// The harness got a value back (received / handed back): check identity, drop it.
    fn consume(&mut self, ctx: &mut Ctx, v: P, why: &'static str) -> u32 {
        let tag = v.tag();
        let before = payload::drops(tag);
        ctx.check("C08", "value-not-dropped-while-reachable", true, before == 0, || format!("tag {} obtained by {} had already been dropped {} times", tag, why, before));
        drop(v);
        if let Some(p) = self.outstanding.iter().position(|t| *t == tag) {
            self.outstanding.swap_remove(p);
        }
        tag
    }

    fn model_pop(&mut self) -> Option<u32> {
        let (tag, parked) = self.order.pop_front()?;
        if self.cap == 0 {
            if let Some(s) = parked {
                self.phase[s] = Phase::Accepted;
            }
        } else if self.order.len() >= self.cap {
            // the freed slot is refilled from the oldest parked sender
            let e = &mut self.order[self.cap - 1];
            if let Some(s) = e.1.take() {
                self.phase[s] = Phase::Accepted;
            }
        }
        Some(tag)
    }

    fn model_close(&mut self) {
        if !self.closed {
            self.closed = true;
            let mut kept = VecDeque::new();
            for (t, p) in self.order.drain(..) {
                match p {
                    Some(s) => self.phase[s] = Phase::ClosedOut,
                    None => kept.push_back((t, None)),
                }
            }
            self.order = kept;
        }
    }

    /// Last receiver handle dropped: close + buffered values discarded at once.
    fn model_clear(&mut self, ctx: &mut Ctx) {
        self.model_close();
        let tags: Vec<u32> = self.order.drain(..).map(|e| e.0).collect();
        let gone: std::collections::HashSet<u32> = tags.iter().copied().collect();
        for t in tags {
            let d = payload::drops(t);
            ctx.check("C11", "last-receiver-drop-discards-buffered-values-immediately", true, d == 1, || {
                format!("buffered tag {} has drop count {} right after the last receiver handle was dropped", t, d)
            });
        }
        self.outstanding.retain(|x| !gone.contains(x));
    }

    fn on_received(&mut self, ctx: &mut Ctx, v: P, how: &'static str) {
        let tag = self.consume(ctx, v, how);
        let head = self.order.front().map(|e| e.0);
        ctx.check("C09", "received-value-is-head-of-send-effect-order", true, head == Some(tag), || {
            format!("{} returned tag {} but the head of the send-effect order is {:?} (order {:?})", how, tag, head, self.order.iter().map(|e| e.0).collect::<Vec<_>>())
        });
        if head == Some(tag) {
            self.model_pop();
        } else if let Some(pos) = self.order.iter().position(|e| e.0 == tag) {
            self.order.remove(pos);
        } else {
            ctx.fail("C08", "no-value-observed-twice", format!("{} returned tag {} which is not inside the channel (duplicate delivery)", how, tag));
        }
    }

    /// `was_registered`: before this poll the receiver was Pending and held no
    /// wake-up, i.e. it sits in the wait queue. Such a receiver legitimately stays
    /// Pending even if a value is available: the value belongs to the receiver
    /// that was notified for it (C10 only demands that *one* of them was woken).
    fn recv_result(&mut self, ctx: &mut Ctx, r: Poll<Option<P>>, how: &'static str, was_registered: bool) {
        let avail = !self.order.is_empty();
        let closed = self.closed;
        match r {
            Poll::Ready(Some(v)) => {
                ctx.check("C09", "receive-yields-only-when-a-value-is-available", true, avail, || format!("{} yielded a value although the reference FIFO is empty", how));
                self.on_received(ctx, v, how);
            }
            Poll::Ready(None) => {
                ctx.check("C11", "receive-none-only-when-closed-and-drained", true, closed && !avail, || {
                    format!("{} returned None with closed={} and {} values still inside", how, closed, self.order.len())
                });
            }
            Poll::Pending => {
                ctx.check("C10", "fresh-or-notified-receive-pending-only-when-empty-and-open", !was_registered, !avail && !closed, || {
                    format!("{} (not waiting in the queue) returned Pending with {} values available, closed={}", how, self.order.len(), closed)
                });
            }
        }
    }

    fn post(&mut self, ctx: &mut Ctx) {
        if self.holders() == 0 {
            self.view = View::default();
            self.view.ok = true;
        } else {
            let mut regs = vec![];
            self.sends.regs(&mut regs);
            self.recvs.regs(&mut regs);
            let snode = self.api().stream_node();
            if let Some((addr, _)) = snode {
                regs.push(Reg {
                    addr,
                    table: 2,
                    slot: 0,
                    st: if self.stream.pending { St::Pending } else { St::Done },
                    woken: self.stream.woken(),
                });
            }
            let api = self.api.as_deref().unwrap();
            let sends = &self.sends;
            let recvs = &self.recvs;
            self.view = inspect_and_check(ctx, Shape::List, regs, &mut |v| api.inspect(v), &mut |r| match r.table {
                0 => sends.node_info(r.slot as usize),
                1 => recvs.node_info(r.slot as usize),
                _ => snode.unwrap().1,
            }, &|_, i| i.state == 1);
            // C11: closed flag vs model
            let closed = self.view.prim.flag;
            let m = self.closed;
            let (tx, rx) = (self.api().n_tx(), self.api().n_rx() + self.api().has_stream() as usize);
            ctx.check("C11", "closed-exactly-when-closed-or-a-side-fully-dropped", true, closed == m, || {
                format!("channel closed flag = {} but model closed = {} (sender handles {}, receiver handles {})", closed, m, tx, rx)
            });
            // C09: capacity bound / parking discipline as seen through the hook
            let blen = self.view.prim.count as usize;
            let parked = self.view.queues[1].len();
            let exp_b = self.buffered();
            let exp_p = self.order.len() - exp_b;
            ctx.check("C09", "buffer-never-exceeds-capacity", true, blen <= self.cap, || format!("buffer holds {} values, capacity {}", blen, self.cap));
            ctx.check("C09", "senders-park-only-while-the-buffer-is-full", parked > 0 && crate::slots::inspect_on(), blen == self.cap, || {
                format!("{} senders are parked although the buffer holds only {} of {}", parked, blen, self.cap)
            });
            // agreement of the hooked state with the reference FIFO: a disagreement means the model can no
            // longer be trusted for this history (model drift) - it is not by itself a violation of C09
            ctx.check("MODEL", "hook-state-equals-reference-fifo", crate::slots::inspect_on(), blen == exp_b && parked == exp_p, || {
                format!("buffer holds {} (capacity {}), {} senders parked; reference FIFO expects {} buffered, {} parked", blen, self.cap, parked, exp_b, exp_p)
            });
            // parked senders are queued in send-effect order (oldest at the tail)
            let q: Vec<(u8, u8)> = self.view.oldest_first(1);
            let m_order: Vec<usize> = self.order.iter().filter_map(|e| e.1).collect();
            let q_order: Vec<usize> = q.iter().map(|x| x.1 as usize).collect();
            ctx.check("C09", "parked-senders-in-send-effect-order", !m_order.is_empty() && crate::slots::inspect_on(), q_order == m_order, || format!("send queue (oldest first) {:?}, reference {:?}", q_order, m_order));
        }
        // C10 (a): a value is available and receivers are pending => one of them holds a wake-up
        let mut pend_recv: Vec<(usize, bool)> = self.recvs.v.iter().enumerate().filter(|(_, s)| s.pending()).map(|(i, s)| (i, s.woken())).collect();
        if self.stream.live && self.stream.pending {
            pend_recv.push((99, self.stream.woken()));
        }
        // With the hook on, "a value is available" and "closed" are read from the channel itself (buffered items,
        // parked senders, closed flag - under its lock), not from the reference FIFO: these wake-up predicates are
        // then plain observations and stay meaningful even if the reference model has drifted (engine: DRIFT_FREE).
        let hooked = crate::slots::inspect_on() && self.holders() > 0;
        let (avail, n_avail) = if hooked {
            let n = self.view.prim.count as usize + self.view.queues.get(1).map_or(0, |q| q.len());
            (n > 0, n)
        } else {
            (!self.order.is_empty(), self.order.len())
        };
        let closed_now = if hooked { self.view.prim.flag } else { self.closed };
        ctx.check("C10", "value-available-and-receivers-pending-implies-one-woken", avail && !pend_recv.is_empty(), pend_recv.iter().any(|p| p.1), || {
            format!("{} value(s) available, pending receivers {:?} (99 = stream), none woken since its last poll", n_avail, pend_recv)
        });
        // C10 (b): a pending sender whose value was accepted has been woken
        for (i, s) in self.sends.v.iter().enumerate() {
            if s.pending() {
                let ph = self.phase[i];
                ctx.check("C10", "accepted-pending-sender-woken", ph == Phase::Accepted, s.woken(), || format!("send slot {}: value accepted but the sender was not woken through its latest waker", i));
                ctx.check("C10", "every-pending-future-woken-after-close", self.closed, s.woken(), || format!("send slot {} is pending after close and was not woken", i));
                ctx.check("C11", "every-pending-future-woken-after-close", self.closed, s.woken(), || format!("send slot {} is pending after close and was not woken", i));
            }
        }
        for p in &pend_recv {
            ctx.check("C10", "every-pending-receiver-woken-after-close", closed_now, p.1, || format!("receiver {} is pending after close and was not woken", p.0));
            ctx.check("C11", "every-pending-receiver-woken-after-close", closed_now, p.1, || format!("receiver {} is pending after close and was not woken", p.0));
        }
        // C08: nothing that is still reachable has been dropped
        let n_out = self.outstanding.len();
        for (ix, t) in self.outstanding.iter().enumerate() {
            // very large buffers: the two ends of the list are scanned on every event, everything at the audits
            if n_out > 256 && ix >= 64 && ix + 64 < n_out {
                continue;
            }
            let d = payload::drops(*t);
            ctx.check("C08", "value-not-dropped-while-reachable", true, d == 0, || format!("tag {} is still inside a future / the channel but has drop count {}", t, d));
        }
        self.sends.check_terminated(ctx);
        self.recvs.check_terminated(ctx);
        if self.stream.live {
            let t = self.api().stream_terminated();
            ctx.check("C17", "stream-terminated-exactly-after-none", true, t == self.stream.terminated, || format!("stream.is_terminated()={} but harness saw None: {}", t, self.stream.terminated));
        }
        // fingerprint
        let mut f = Fp::new();
        f.add(self.closed as u64);
        f.add(self.buffered() as u64);
        f.add(self.order.len().min(64) as u64);
        // only parked entries (at most one per send slot) carry information beyond the count
        for e in self.order.iter().skip(self.buffered()) {
            f.add(e.1.map_or(77, |s| s as u64));
        }
        for p in &self.phase {
            f.add(*p as u64);
        }
        f.add(self.api().n_tx() as u64);
        f.add(self.api().n_rx() as u64);
        f.add(self.stream.live as u64 | (self.stream.pending as u64) << 1 | (self.stream.terminated as u64) << 2 | (self.stream.woken() as u64) << 3 | (self.stream.last_fl as u64) << 4);
        self.view.fp_queues(&mut f);
        self.sends.fp_slots(&mut f, &self.view);
        self.recvs.fp_slots(&mut f, &self.view);
        self.fp = f.get();
    }
}

impl<M: RawMutex + 'static, P: Payload> MpmcCore<M, P> {
    pub fn new(cfg: &str, k: usize, bounded: bool) -> Self {
        let api = make_api::<M, P>(cfg);
        let cap = api.cap();
        let big = cap > 100;
        let base = payload::reserve(if big { 131_000 } else if bounded { 512 } else { 4100 });
        let mut c = MpmcCore {
            api: Some(api),
            cap,
            closed: false,
            order: VecDeque::with_capacity(16),
            sends: Slots::new(k, 0),
            phase: vec![Phase::Finished; k],
            recvs: Slots::new(k, 1),
            stream: StreamSlot::default(),
            outstanding: Vec::with_capacity(64),
            base,
            next_tag: base,
            ok_unreceived: 0,
            serial: Serial(0),
            view: View::default(),
            fp: 0,
            bounded,
            max_handles: (cfg_num(cfg, "handles", 5) as usize).max(2),
            free: 0,
        };
        let mut ctx = Ctx::new();
        ctx.track_distinct = false;
        c.post(&mut ctx);
        c
    }

    pub fn enabled(&self, out: &mut Vec<Ev>) {
        let tags_left = ((self.next_tag - self.base) as usize) < if self.cap > 100 { 130_000 } else if cfg!(miri) { 300 } else if self.bounded { 500 } else { 4000 };
        let has_tx = self.api().n_tx() > 0;
        let has_rx = self.api().n_rx() > 0;
        let mut created = false;
        for (i, s) in self.sends.v.iter().enumerate() {
            match &s.fut {
                None => {
                    if !created && has_tx && tags_left && !self.serial.exhausted() {
                        out.push(Ev::new(SEND_CREATE, i as u8, 0));
                        created = true;
                    }
                }
                Some(_) => {
                    if s.st != St::Done {
                        out.push(Ev::new(SEND_POLL, i as u8, 0));
                        out.push(Ev::new(SEND_POLL, i as u8, 1));
                        out.push(Ev::new(SEND_CANCEL, i as u8, 0));
                    } else {
                        out.push(Ev::new(POLL_DONE, i as u8, 0));
                    }
                    out.push(Ev::new(SEND_DROP, i as u8, 0));
                }
            }
        }
        created = false;
        for (i, s) in self.recvs.v.iter().enumerate() {
            match &s.fut {
                None => {
                    if !created && has_rx && !self.serial.exhausted() {
                        out.push(Ev::new(RECV_CREATE, i as u8, 0));
                        created = true;
                    }
                }
                Some(_) => {
                    if s.st != St::Done {
                        out.push(Ev::new(RECV_POLL, i as u8, 0));
                        out.push(Ev::new(RECV_POLL, i as u8, 1));
                    } else {
                        out.push(Ev::new(POLL_DONE, i as u8, 1));
                    }
                    out.push(Ev::new(RECV_DROP, i as u8, 0));
                }
            }
        }
        if self.cap > 0 && has_tx && tags_left {
            out.push(Ev::new(TRY_SEND, 0, 0));
        }
        if has_rx {
            out.push(Ev::new(TRY_RECV, 0, 0));
        }
        if has_tx {
            out.push(Ev::new(CLOSE, 0, 0));
        }
        if has_rx && self.api().shared() {
            out.push(Ev::new(CLOSE, 1, 0));
        }
        if self.stream.live {
            out.push(Ev::new(STREAM_POLL, 0, 0));
            out.push(Ev::new(STREAM_POLL, 0, 1));
            out.push(Ev::new(STREAM_DROP, 0, 0));
        } else if has_rx && !self.serial.exhausted() && !(self.bounded && self.sends.v.len() >= 2) {
            // fixpoint runs: the stream is explored with k = 1, two plain slots per side with k >= 2
            out.push(Ev::new(STREAM_CREATE, 0, 0));
        }
        if self.api().shared() {
            let lim = if self.bounded { 2 } else { self.max_handles };
            if has_tx && self.api().n_tx() < lim {
                out.push(Ev::new(CLONE_TX, 0, 0));
            }
            if has_rx && self.api().n_rx() < lim {
                out.push(Ev::new(CLONE_RX, 0, 0));
            }
            // the first and (index fits the event encoding) the last handle of each side can be dropped
            for (kind, n) in [(DROP_TX, self.api().n_tx()), (DROP_RX, self.api().n_rx())] {
                if n > 0 {
                    out.push(Ev::new(kind, 0, 0));
                }
                if n > 1 && n <= 200 {
                    out.push(Ev::new(kind, (n - 1) as u8, 0));
                }
            }
        }
    }

    pub fn weight(&self, ev: Ev, profile: u8) -> u32 {
        match (ev.k, profile) {
            (POLL_DONE, _) => 1,
            (CLOSE, _) => 1,
            (DROP_TX, _) | (DROP_RX, _) => 1,
            (CLONE_TX, _) | (CLONE_RX, _) => 2,
            (SEND_DROP, 1) | (RECV_DROP, 1) | (SEND_CANCEL, 1) => 12,
            (SEND_CANCEL, _) => 2,
            (SEND_POLL, 2) if self.sends.v[ev.a as usize].last_flavour != ev.b => 12,
            (RECV_POLL, 2) if self.recvs.v[ev.a as usize].last_flavour != ev.b => 12,
            (SEND_POLL, _) | (RECV_POLL, _) => 7,
            (SEND_CREATE, _) | (RECV_CREATE, _) => 6,
            (TRY_SEND, 3) | (TRY_RECV, 3) => 10,
            (STREAM_CREATE, _) | (STREAM_DROP, _) => 1,
            (STREAM_POLL, _) => 3,
            _ => 4,
        }
    }

    pub fn step(&mut self, ev: Ev, ctx: &mut Ctx) {
        let a = ev.a as usize;
        match ev.k {
            SEND_CREATE => {
                let t = self.new_tag();
                let api = self.api.as_deref().unwrap();
                let v = P::new(t);
                // constructing the payload is not a crate call; the future construction is
                let (aa, ad) = if P::ALLOCATES { (u64::MAX, u64::MAX) } else { (0, 0) };
                let _ = (aa, ad);
                self.sends.create(a, &mut self.serial, ctx, t as u64, move || api.send(v));
                self.phase[a] = Phase::NotStarted;
                self.sends.v[a].fp_arg = Some(0);
            }
            SEND_POLL => {
                let ph = self.phase[a];
                let tag = self.sends.v[a].arg as u32;
                let (al, de) = self.alloc_allowance(true);
                let de = de.max(self.dealloc_allowance(true));
                let closed = self.closed;
                let room = self.order.len() < self.cap;
                let r = self.sends.poll(a, ev.b, ctx, al, de);
                if let Some(r) = r {
                    match (ph, r) {
                        (Phase::NotStarted, Poll::Ready(Err(ChannelSendError(v)))) => {
                            let got = self.consume(ctx, v, "send error");
                            ctx.check("C11", "failed-send-returns-the-callers-value", true, got == tag, || format!("send error returned tag {} instead of {}", got, tag));
                            ctx.check("C11", "send-fails-only-after-close", true, closed, || "send future failed on an open channel".into());
                            self.phase[a] = Phase::Finished;
                        }
                        (Phase::NotStarted, Poll::Ready(Ok(()))) => {
                            ctx.check("C11", "send-after-close-fails", true, !closed, || "send future succeeded on a closed channel".into());
                            ctx.check("C09", "send-completes-only-when-stored-or-taken", true, room, || {
                                format!("send completed at its first poll although {} values are inside a channel of capacity {}", self.order.len(), self.cap)
                            });
                            self.order.push_back((tag, None));
                            self.phase[a] = Phase::Finished;
                        }
                        (Phase::NotStarted, Poll::Pending) => {
                            ctx.check("C10", "send-pending-only-when-full-and-open", true, !room && !closed, || {
                                format!("first poll of a send returned Pending with {} of {} slots used, closed={}", self.order.len(), self.cap, closed)
                            });
                            self.order.push_back((tag, Some(a)));
                            self.phase[a] = Phase::Parked;
                        }
                        (Phase::Parked, Poll::Pending) => {}
                        (Phase::Parked, Poll::Ready(Ok(()))) => {
                            ctx.fail("C09", "send-completes-only-when-stored-or-taken", format!("parked send {} (tag {}) completed although its value was neither stored nor taken", a, tag));
                            self.phase[a] = Phase::Finished;
                        }
                        (Phase::Accepted, Poll::Ready(Ok(()))) => {
                            self.phase[a] = Phase::Finished;
                        }
                        (Phase::Accepted, Poll::Pending) => {
                            ctx.fail("C10", "accepted-sender-completes-on-repoll", format!("send {} (tag {}) was accepted but its re-poll returned Pending", a, tag));
                        }
                        (Phase::ClosedOut, Poll::Ready(Err(ChannelSendError(v)))) => {
                            let got = self.consume(ctx, v, "send error after close");
                            ctx.check("C11", "failed-send-returns-the-callers-value", true, got == tag, || format!("send error returned tag {} instead of {}", got, tag));
                            self.phase[a] = Phase::Finished;
                        }
                        (ph, Poll::Ready(Err(ChannelSendError(v)))) => {
                            let got = self.consume(ctx, v, "unexpected send error");
                            ctx.fail("C08", "value-ends-in-exactly-one-place", format!("send {} in phase {:?} returned its value (tag {}) back", a, ph, got));
                            self.phase[a] = Phase::Finished;
                        }
                        (ph, r) => {
                            ctx.fail("C11", "pending-send-fails-after-close", format!("send {} in phase {:?} returned {}", a, ph, if r.is_pending() { "Pending" } else { "Ok" }));
                            if r.is_ready() {
                                self.phase[a] = Phase::Finished;
                            }
                        }
                    }
                }
            }
            SEND_DROP | SEND_CANCEL => {
                let ph = self.phase[a];
                let tag = self.sends.v[a].arg as u32;
                if ev.k == SEND_CANCEL {
                    let de = self.dealloc_allowance(true);
                    let fut = self.sends.v[a].fut.as_mut().unwrap();
                    let r = catch(|| alloc::armed(|| fut.as_mut().cancel()));
                    match r {
                        Ok((got, c)) => {
                            c18(ctx, "cancel", c, if P::ALLOCATES { u64::MAX } else { 0 }, de);
                            let expect_value = matches!(ph, Phase::NotStarted | Phase::Parked | Phase::ClosedOut);
                            match got {
                                Some(v) => {
                                    let t = self.consume(ctx, v, "cancel");
                                    ctx.check("C08", "cancel-hands-back-the-unsent-value", true, expect_value && t == tag, || format!("cancel() in phase {:?} returned tag {} (own tag {})", ph, t, tag));
                                }
                                None => ctx.check("C08", "cancel-hands-back-the-unsent-value", true, !expect_value, || format!("cancel() in phase {:?} returned None although the value (tag {}) never left the future", ph, tag)),
                            }
                            self.sends.v[a].st = St::Done;
                        }
                        Err(msg) => ctx.fail("C01", "no-panic-on-contract-respecting-history", format!("cancel: panic: {}", msg)),
                    }
                } else {
                    count_drop(ctx, &self.view, 0, a as u8, self.sends.v[a].flavours_used);
                    let de = self.dealloc_allowance(self.sends.v[a].st != St::Done);
                    self.sends.drop_fut(a, ctx, de);
                    if matches!(ph, Phase::NotStarted | Phase::Parked | Phase::ClosedOut) {
                        self.expect_dropped(ctx, tag, "dropping the send future that still owned it");
                    }
                }
                if ph == Phase::Parked {
                    if let Some(pos) = self.order.iter().position(|e| e.0 == tag) {
                        self.order.remove(pos);
                    }
                }
                self.phase[a] = Phase::Finished;
            }
            RECV_CREATE => {
                let api = self.api.as_deref().unwrap();
                self.recvs.create(a, &mut self.serial, ctx, 0, || api.receive());
            }
            RECV_POLL => {
                let (al, de) = self.alloc_allowance(true);
                let de = de.max(self.dealloc_allowance(true));
                let was_registered = self.recvs.v[a].pending() && !self.recvs.v[a].woken();
                if let Some(r) = self.recvs.poll(a, ev.b, ctx, al, de) {
                    self.recv_result(ctx, r, "receive future", was_registered);
                }
            }
            RECV_DROP => {
                count_drop(ctx, &self.view, 1, a as u8, self.recvs.v[a].flavours_used);
                let de = self.dealloc_allowance(self.recvs.v[a].st != St::Done);
                self.recvs.drop_fut(a, ctx, de);
            }
            TRY_SEND => {
                let t = self.new_tag();
                let (al, de) = self.alloc_allowance(true);
                let api = self.api.as_deref().unwrap();
                let v = P::new(t);
                if let Some(r) = call(ctx, "try_send", al, de, move || api.try_send(v)) {
                    let room = self.order.len() < self.cap;
                    let closed = self.closed;
                    match r {
                        Ok(()) => {
                            ctx.check("C11", "send-after-close-fails", true, !closed, || "try_send succeeded on a closed channel".into());
                            ctx.check("C09", "try_send-succeeds-only-with-free-capacity-and-no-older-parked-sender", true, room, || {
                                format!("try_send succeeded with {} values inside a channel of capacity {} ({} parked senders)", self.order.len(), self.cap, self.order.iter().filter(|e| e.1.is_some()).count())
                            });
                            self.order.push_back((t, None));
                        }
                        Err(e) if !(e.is_full() ^ e.is_closed()) => {
                            ctx.fail("C11", "try-send-error-accessors-agree-with-the-variant", "TrySendError::is_full / is_closed disagree".into());
                            let _ = self.consume(ctx, e.into_inner(), "try_send error");
                        }
                        Err(TrySendError::Full(v)) => {
                            let got = self.consume(ctx, v, "try_send Full");
                            ctx.check("C08", "rejected-value-handed-back", true, got == t, || format!("Full error returned tag {} instead of {}", got, t));
                            ctx.check("C09", "try_send-full-only-when-full", true, !room && !closed, || format!("try_send returned Full with {} of {} slots used, closed={}", self.order.len(), self.cap, closed));
                        }
                        Err(TrySendError::Closed(v)) => {
                            let got = self.consume(ctx, v, "try_send Closed");
                            ctx.check("C11", "failed-send-returns-the-callers-value", true, got == t, || format!("Closed error returned tag {} instead of {}", got, t));
                            ctx.check("C11", "send-fails-only-after-close", true, closed, || "try_send returned Closed on an open channel".into());
                        }
                    }
                }
            }
            TRY_RECV => {
                let (al, de) = self.alloc_allowance(true);
                let api = self.api.as_deref().unwrap();
                if let Some(r) = call(ctx, "try_receive", al, de, || api.try_receive()) {
                    match r {
                        Ok(v) => {
                            let avail = !self.order.is_empty();
                            ctx.check("C09", "receive-yields-only-when-a-value-is-available", true, avail, || "try_receive yielded a value although the reference FIFO is empty".into());
                            self.on_received(ctx, v, "try_receive");
                        }
                        Err(e) => {
                            let avail = !self.order.is_empty();
                            let expect = if self.closed { TryReceiveError::Closed } else { TryReceiveError::Empty };
                            ctx.check("C11", "try-receive-error-accessors-agree-with-the-variant", true, e.is_closed() == (e == TryReceiveError::Closed) && e.is_empty() == (e == TryReceiveError::Empty), || "TryReceiveError accessors disagree with the variant".into());
                            ctx.check("C11", "try_receive-error-is-closed-iff-closed-and-drained", true, !avail && e == expect, || {
                                format!("try_receive returned {:?} with {} values inside, closed={}", e, self.order.len(), self.closed)
                            });
                        }
                    }
                }
            }
            CLOSE => {
                let api = self.api.as_deref().unwrap();
                let via_rx = ev.a == 1;
                if let Some(st) = call(ctx, "close", 0, 0, || api.close(via_rx)) {
                    let expect = if self.closed { CloseStatus::AlreadyClosed } else { CloseStatus::NewlyClosed };
                    ctx.check("C11", "close-status-accessors-agree-with-the-variant", true, st.is_newly_closed() == (st == CloseStatus::NewlyClosed) && st.is_already_closed() == (st == CloseStatus::AlreadyClosed), || "CloseStatus accessors disagree with the variant".into());
                    ctx.check("C11", "close-is-newly-closed-once-then-already-closed", true, st == expect, || format!("close() returned {:?}, expected {:?}", st, expect));
                    self.model_close();
                }
            }
            STREAM_CREATE => {
                let api = self.api.as_mut().unwrap();
                // the harness boxes the stream inside this call: exactly one allocation is its own
                call(ctx, "create-stream", 1, 0, || api.stream_create());
                self.stream = StreamSlot { live: true, serial: self.serial.next(), ..Default::default() };
            }
            STREAM_POLL => {
                let id = (self.stream.serial as usize) * 2 + ev.b as usize;
                let w = wakers::waker(id);
                let seq = wakers::tick();
                self.stream.last_poll = seq;
                self.stream.last_waker = id;
                self.stream.flavours |= 1 << ev.b;
                self.stream.last_fl = ev.b;
                let was_term = self.stream.terminated;
                let was_registered = self.stream.pending && !self.stream.woken();
                // C17 (stream clause), facts before the call: is a value available, is the channel closed, and does
                // another pending receiver hold an unconsumed wake-up (then the available value may be meant for it)
                let hooked = crate::slots::inspect_on() && self.holders() > 0;
                let avail_before = if hooked { self.view.prim.count as usize + self.view.queues.get(1).map_or(0, |q| q.len()) > 0 } else { !self.order.is_empty() };
                let closed_before = if hooked { self.view.prim.flag } else { self.closed };
                let others_entitled = self.recvs.v.iter().any(|s| s.pending() && s.woken());
                let (al, de) = self.alloc_allowance(true);
                let de = de.max(self.dealloc_allowance(false));
                let api = self.api.as_mut().unwrap();
                let r = catch(|| {
                    alloc::armed(|| {
                        let mut cx = Context::from_waker(&w);
                        api.stream_poll(&mut cx)
                    })
                });
                match r {
                    Ok((p, c)) => {
                        c18(ctx, "stream-poll", c, al, de);
                        self.stream.pending = p.is_pending();
                        if was_term {
                            let none = matches!(p, Poll::Ready(None));
                            ctx.check("C17", "terminated-stream-keeps-returning-none", true, none, || "a terminated stream yielded something else than None".into());
                            if let Poll::Ready(Some(v)) = p {
                                self.on_received(ctx, v, "terminated stream");
                            }
                        } else {
                            if let Poll::Ready(None) = p {
                                self.stream.terminated = true;
                            }
                            if p.is_pending() {
                                ctx.check("C17", "stream-returns-none-once-closed-and-drained", closed_before && !avail_before, false, || {
                                    "the channel is closed and drained, yet the polled stream returned Pending instead of None".into()
                                });
                                ctx.check("C17", "stream-pending-only-while-no-value-is-due-to-it", avail_before && !others_entitled && !closed_before, false, || {
                                    "a value is available (buffered or in a parked sender) and no other receiver holds a wake-up, yet the polled stream returned Pending (successive receive futures would have yielded the value)".to_string()
                                });
                            }
                            self.recv_result(ctx, p, "stream", was_registered);
                        }
                    }
                    Err(msg) => ctx.fail("C01", "no-panic-on-contract-respecting-history", format!("stream poll: panic: {}", msg)),
                }
            }
            STREAM_DROP => {
                let shared = self.api().shared();
                // the shared stream owns a receiver handle: dropping it may be the last receiver
                let last_rx = shared && self.api().n_rx() == 0;
                let de = self.dealloc_allowance(true);
                let api = self.api.as_mut().unwrap();
                // + the harness' own box
                call(ctx, "drop-stream", 0, de.saturating_add(1), || api.stream_drop());
                self.stream = StreamSlot::default();
                if last_rx {
                    self.model_clear(ctx);
                }
            }
            CLONE_TX => {
                let api = self.api.as_mut().unwrap();
                call(ctx, "clone-sender", 0, 0, || api.clone_tx());
            }
            CLONE_RX => {
                let api = self.api.as_mut().unwrap();
                call(ctx, "clone-receiver", 0, 0, || api.clone_rx());
            }
            DROP_TX => {
                let de = self.dealloc_allowance(true);
                let api = self.api.as_mut().unwrap();
                call(ctx, "drop-sender", 0, de, || api.drop_tx(a));
                if self.api().n_tx() == 0 {
                    self.model_close();
                }
            }
            DROP_RX => {
                let de = self.dealloc_allowance(true);
                let api = self.api.as_mut().unwrap();
                call(ctx, "drop-receiver", 0, de, || api.drop_rx(a));
                if self.api().n_rx() == 0 && !self.api().has_stream() {
                    self.model_clear(ctx);
                }
            }
            POLL_DONE => {
                let p = if ev.b == 0 {
                    super::poll_after_done_panics(self.sends.v[a].fut.as_mut().unwrap().as_mut())
                } else {
                    super::poll_after_done_panics(self.recvs.v[a].fut.as_mut().unwrap().as_mut())
                };
                ctx.check("C17", "poll-after-completion-panics", true, p, || "polling a completed channel future did not panic".into());
            }
            _ => unreachable!(),
        }
        self.post(ctx);
    }

    pub fn fp(&self) -> u64 {
        self.fp
    }

    pub fn terminal(&self) -> bool {
        self.closed && self.order.is_empty()
    }

    pub fn finish(mut self, ctx: &mut Ctx) {
        for i in 0..self.sends.v.len() {
            if self.sends.v[i].live() {
                let ph = self.phase[i];
                let tag = self.sends.v[i].arg as u32;
                let de = self.dealloc_allowance(self.sends.v[i].st != St::Done);
                self.sends.drop_fut(i, ctx, de);
                if matches!(ph, Phase::NotStarted | Phase::Parked | Phase::ClosedOut) {
                    self.expect_dropped(ctx, tag, "dropping the send future that still owned it");
                }
                if ph == Phase::Parked {
                    if let Some(pos) = self.order.iter().position(|e| e.0 == tag) {
                        self.order.remove(pos);
                    }
                }
                self.phase[i] = Phase::Finished;
            }
        }
        for i in 0..self.recvs.v.len() {
            if self.recvs.v[i].live() {
                let de = self.dealloc_allowance(self.recvs.v[i].st != St::Done);
                self.recvs.drop_fut(i, ctx, de);
            }
        }
        if self.stream.live {
            let last_rx = self.api().shared() && self.api().n_rx() == 0;
            self.api_mut().stream_drop();
            self.stream = StreamSlot::default();
            if last_rx {
                self.model_clear(ctx);
            }
        }
        self.post(ctx);
        if self.holders() > 0 {
            let empty = self.view.queues[0].is_empty() && self.view.queues[1].is_empty() && self.view.prim.head == 0 && self.view.prim.head2 == 0;
            ctx.check("C01", "queue-empty-after-all-futures-dropped", crate::slots::inspect_on(), empty, || "a wait queue is not empty at the end of the history".into());
        }
        // dropping the channel drops whatever is still buffered, exactly once
        let rest: Vec<u32> = self.order.iter().map(|e| e.0).collect();
        self.api.take().unwrap().destroy();
        for t in rest {
            self.expect_dropped(ctx, t, "dropping the channel that still buffered it");
        }
        let left = std::mem::take(&mut self.outstanding);
        ctx.check("C08", "every-value-accounted-for-at-the-end", true, left.is_empty(), || format!("tags {:?} are neither received, handed back nor dropped", left));
        // global audit over every tag of this history
        for t in self.base..self.next_tag {
            let d = payload::drops(t);
            ctx.check("C08", "every-value-dropped-exactly-once-overall", true, d == 1, || format!("tag {} was dropped {} times over the whole history", t, d));
        }
    }
}

// ------------------------------------------------------------ driver (lock x payload dispatch)
pub enum MpmcDriver {
    LV(MpmcCore<Noop, Val>),
    SV(MpmcCore<Pl, Val>),
    PV(MpmcCore<Spin, Val>),
    SB(MpmcCore<Pl, BVal>),
}

macro_rules! each {
    ($self:expr, $c:ident => $e:expr) => {
        match $self {
            MpmcDriver::LV($c) => $e,
            MpmcDriver::SV($c) => $e,
            MpmcDriver::PV($c) => $e,
            MpmcDriver::SB($c) => $e,
        }
    };
}

impl Driver for MpmcDriver {
    fn name() -> &'static str {
        "mpmc"
    }
    fn configs(tier: Tier) -> Vec<String> {
        configs(tier)
    }
    fn new(cfg: &str, k: usize, bounded: bool) -> Self {
        if cfg_get(cfg, "payload") == Some("bval") {
            return MpmcDriver::SB(MpmcCore::new(cfg, k, bounded));
        }
        match cfg_get(cfg, "lock") {
            Some("local") => MpmcDriver::LV(MpmcCore::new(cfg, k, bounded)),
            Some("spin") => MpmcDriver::PV(MpmcCore::new(cfg, k, bounded)),
            _ => MpmcDriver::SV(MpmcCore::new(cfg, k, bounded)),
        }
    }
    fn enabled(&self, out: &mut Vec<Ev>) {
        each!(self, c => c.enabled(out))
    }
    fn weight(&self, ev: Ev, profile: u8) -> u32 {
        each!(self, c => c.weight(ev, profile))
    }
    fn step(&mut self, ev: Ev, ctx: &mut Ctx) {
        each!(self, c => c.step(ev, ctx))
    }
    fn fp(&self) -> u64 {
        each!(self, c => c.fp())
    }
    fn terminal(&self) -> bool {
        each!(self, c => c.terminal())
    }
    fn finish(self, ctx: &mut Ctx) {
        each!(self, c => c.finish(ctx))
    }
    fn ev_name(ev: Ev) -> String {
        ev_name(ev)
    }
    fn scenarios(cfg: &str) -> Vec<Vec<Ev>> {
        scenarios(cfg)
    }
}

/// Same driver, boxed-payload configurations (sanitizer legs).
pub struct MpmcBvalDriver(MpmcDriver);

impl Driver for MpmcBvalDriver {
    fn name() -> &'static str {
        "mpmc-bval"
    }
    fn configs(tier: Tier) -> Vec<String> {
        configs_bval(tier)
    }
    fn new(cfg: &str, k: usize, bounded: bool) -> Self {
        MpmcBvalDriver(MpmcDriver::new(cfg, k, bounded))
    }
    fn enabled(&self, out: &mut Vec<Ev>) {
        self.0.enabled(out)
    }
    fn weight(&self, ev: Ev, profile: u8) -> u32 {
        self.0.weight(ev, profile)
    }
    fn step(&mut self, ev: Ev, ctx: &mut Ctx) {
        self.0.step(ev, ctx)
    }
    fn fp(&self) -> u64 {
        self.0.fp()
    }
    fn terminal(&self) -> bool {
        self.0.terminal()
    }
    fn finish(self, ctx: &mut Ctx) {
        self.0.finish(ctx)
    }
    fn ev_name(ev: Ev) -> String {
        ev_name(ev)
    }
    fn scenarios(cfg: &str) -> Vec<Vec<Ev>> {
        scenarios(cfg)
    }
}
