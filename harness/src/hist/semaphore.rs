//! Semaphore histories (borrowed and shared): C05 (conservation), C06 (head
//! request never stranded), C07 (fair order), riders C01 / C17 / C18 / C20.

use super::{fl, Core};
use crate::engine::{Ctx, Ev, Tier};
use crate::locks::{cfg_num, LockName};
use crate::slots::{call, inspect_and_check, NodeAccess, Serial, Shape, Slots, St, View};
use crate::util::Fp;
use futures_core::future::FusedFuture;
use futures_intrusive::sync::{
    GenericSemaphore, GenericSemaphoreAcquireFuture, GenericSemaphoreReleaser, GenericSharedSemaphore,
    GenericSharedSemaphoreAcquireFuture, GenericSharedSemaphoreReleaser,
};
use futures_intrusive::verif::Visit;
use lock_api::RawMutex;
use std::future::Future;
use std::marker::PhantomData;
use std::task::Poll;

crate::impl_node_access!(
    ['a, M: RawMutex] GenericSemaphoreAcquireFuture<'a, M>,
    [M: RawMutex] GenericSharedSemaphoreAcquireFuture<M>,
);

pub const CREATE: u8 = 0;
pub const POLL: u8 = 1;
pub const DROP_FUT: u8 = 2;
pub const TRY_ACQUIRE: u8 = 3;
pub const RELEASE: u8 = 4;
pub const DROP_REL: u8 = 5;
pub const DISARM: u8 = 6;
pub const POLL_DONE: u8 = 7;
pub const DROP_HANDLE: u8 = 8;

pub fn ev_name(e: Ev) -> String {
    match e.k {
        CREATE => format!("Acquire({},n={})", e.a, SIZES[e.b as usize]),
        POLL => format!("Poll({},{})", e.a, fl(e.b)),
        DROP_FUT => format!("DropFut({})", e.a),
        TRY_ACQUIRE => format!("TryAcquire(n={})", SIZES[e.a as usize]),
        RELEASE => format!("Release(n={})", RELEASES[e.a as usize]),
        DROP_REL => format!("DropReleaser({})", e.a),
        DISARM => format!("Disarm({})", e.a),
        POLL_DONE => format!("PollAfterCompletion({})", e.a),
        DROP_HANDLE => "DropSharedHandle()".into(),
        255 => "EndOfHistoryAudit()".into(),
        _ => format!("?({},{},{})", e.k, e.a, e.b),
    }
}

pub fn configs(tier: Tier) -> Vec<String> {
    let mut v = vec![];
    for lock in ["local", "sync", "spin"] {
        if tier == Tier::Quick && lock == "spin" {
            continue;
        }
        for shared in 0..2 {
            for fair in 0..2 {
                for init in 0..4 {
                    if tier == Tier::Quick && lock == "sync" && init % 2 == 1 {
                        continue;
                    }
                    v.push(format!("lock={},shared={},fair={},init={}", lock, shared, fair, init));
                    if init == 0 && lock == "local" {
                        v.push(format!("lock={},shared={},fair={},init={},big=1,nobfs=1", lock, shared, fair, init));
                    }
                }
            }
        }
    }
    v
}

pub fn scenarios(cfg: &str) -> Vec<Vec<Ev>> {
    let e = Ev::new;
    if cfg_num(cfg, "init", 0) != 0 || cfg_num(cfg, "big", 0) == 1 {
        return vec![];
    }
    let mut out = deep_scenarios();
    out.extend(base_scenarios());
    out
}

fn deep_scenarios() -> Vec<Vec<Ev>> {
    let e = Ev::new;
    let mut v = vec![];
    // deep queues: n single-permit requests, interior ones cancelled; (a) one release satisfies everybody,
    // (b) permits trickle in one by one
    for (n, cancel, newest_first) in crate::hist::deep_queue_patterns(&[5, 6, 8]) {
        for trickle in [false, true] {
            let mut s = vec![];
            for i in 0..n {
                s.push(e(CREATE, i, 1));
                s.push(e(POLL, i, 0));
            }
            for c in &cancel {
                s.push(e(DROP_FUT, *c, 0));
            }
            let rest = crate::hist::deep_rest(n, &cancel);
            if trickle {
                for round in 0..rest.len() {
                    s.push(e(RELEASE, 1, 0));
                    if newest_first {
                        for i in rest.iter().rev() {
                            s.push(e(POLL, *i, 1));
                        }
                    } else {
                        s.push(e(POLL, rest[round], 1));
                    }
                }
            } else {
                s.push(e(RELEASE, 4, 0));
                let mut order = rest.clone();
                if newest_first {
                    order.reverse();
                }
                for i in order {
                    s.push(e(POLL, i, 1));
                }
            }
            v.push(s);
        }
    }
    v
}

fn base_scenarios() -> Vec<Vec<Ev>> {
    let e = Ev::new;
    vec![
        // D1a shape: cancel the waiting head while a smaller request behind it fits
        vec![e(CREATE, 0, 2), e(POLL, 0, 0), e(CREATE, 1, 1), e(POLL, 1, 0), e(RELEASE, 1, 0), e(DROP_FUT, 0, 0)],
        // D1b shape: a notified request finds its permits stolen and re-queues
        vec![e(CREATE, 0, 2), e(POLL, 0, 0), e(CREATE, 1, 1), e(POLL, 1, 0), e(RELEASE, 2, 0), e(TRY_ACQUIRE, 1, 0), e(DISARM, 0, 0), e(POLL, 0, 1)],
        // large head request must not be overtaken, cancellation in the middle
        vec![e(CREATE, 0, 3), e(POLL, 0, 0), e(CREATE, 1, 1), e(POLL, 1, 1), e(CREATE, 2, 1), e(POLL, 2, 0), e(RELEASE, 2, 0), e(POLL, 2, 1), e(DROP_FUT, 1, 0), e(RELEASE, 1, 0), e(POLL, 0, 1)],
        // notified waiter dropped -> forward
        vec![e(CREATE, 0, 1), e(POLL, 0, 0), e(CREATE, 1, 1), e(POLL, 1, 0), e(RELEASE, 1, 0), e(DROP_FUT, 0, 0), e(POLL, 1, 1)],
        // a notified big request loses a permit to a steal while TWO small requests wait behind it
        vec![e(CREATE, 0, 3), e(POLL, 0, 0), e(CREATE, 1, 1), e(POLL, 1, 0), e(CREATE, 2, 1), e(POLL, 2, 0), e(RELEASE, 1, 0), e(RELEASE, 2, 0), e(TRY_ACQUIRE, 1, 0), e(POLL, 0, 1), e(POLL, 1, 1), e(POLL, 2, 1)],
        // as many single-permit waiters as there are slots, all satisfied by one release, polled oldest first
        {
            let mut v = vec![];
            for i in 0..8u8 {
                v.push(e(CREATE, i, 1));
                v.push(e(POLL, i, 0));
            }
            v.push(e(RELEASE, 4, 0)); // one release that satisfies everybody (7 permits)
            for i in 0..8u8 {
                v.push(e(POLL, i, 1));
            }
            v
        },
    ]
}

/// Borrowed vs shared semaphore API.
pub trait SemApi: Sized {
    type Fut: Future<Output = Self::Rel> + FusedFuture + NodeAccess;
    type Rel;
    const SHARED: bool;
    fn new(fair: bool, permits: usize) -> Self;
    fn acquire(&self, n: usize) -> Self::Fut;
    fn try_acquire(&self, n: usize) -> Option<Self::Rel>;
    fn release(&self, n: usize);
    fn permits(&self) -> usize;
    fn inspect(&self, v: &mut dyn FnMut(Visit) -> bool);
    fn disarm(r: &mut Self::Rel) -> usize;
    fn destroy(self);
}

pub struct Borrowed<M: RawMutex + 'static>(crate::util::Leaked<GenericSemaphore<M>>);

impl<M: RawMutex + 'static> SemApi for Borrowed<M> {
    type Fut = GenericSemaphoreAcquireFuture<'static, M>;
    type Rel = GenericSemaphoreReleaser<'static, M>;
    const SHARED: bool = false;
    fn new(fair: bool, permits: usize) -> Self {
        let owner = crate::util::Leaked::new(GenericSemaphore::new(fair, permits));
        Borrowed(owner)
    }
    fn acquire(&self, n: usize) -> Self::Fut {
        self.0.get().acquire(n)
    }
    fn try_acquire(&self, n: usize) -> Option<Self::Rel> {
        self.0.get().try_acquire(n)
    }
    fn release(&self, n: usize) {
        self.0.get().release(n)
    }
    fn permits(&self) -> usize {
        self.0.get().permits()
    }
    fn inspect(&self, v: &mut dyn FnMut(Visit) -> bool) {
        self.0.get().verif_inspect(v)
    }
    fn disarm(r: &mut Self::Rel) -> usize {
        r.disarm()
    }
    fn destroy(self) {
        // Safety: all futures and releasers have been dropped
        unsafe { self.0.reclaim() }
    }
}

pub struct Shared<M: RawMutex + 'static>(GenericSharedSemaphore<M>);

impl<M: RawMutex + 'static> SemApi for Shared<M> {
    type Fut = GenericSharedSemaphoreAcquireFuture<M>;
    type Rel = GenericSharedSemaphoreReleaser<M>;
    const SHARED: bool = true;
    fn new(fair: bool, permits: usize) -> Self {
        Shared(GenericSharedSemaphore::new(fair, permits))
    }
    fn acquire(&self, n: usize) -> Self::Fut {
        self.0.acquire(n)
    }
    fn try_acquire(&self, n: usize) -> Option<Self::Rel> {
        self.0.try_acquire(n)
    }
    fn release(&self, n: usize) {
        self.0.release(n)
    }
    fn permits(&self) -> usize {
        self.0.permits()
    }
    fn inspect(&self, v: &mut dyn FnMut(Visit) -> bool) {
        self.0.verif_inspect(v)
    }
    fn disarm(r: &mut Self::Rel) -> usize {
        r.disarm()
    }
    fn destroy(self) {}
}

pub struct SemInner<A: SemApi> {
    /// The harness's handle. For the shared flavour an extra clone-free handle
    /// is kept for observation only (`probe`), the "user" handle can be dropped.
    sem: A,
    fair: bool,
    bounded: bool,
    big: bool,
    slots: Slots<A::Fut>,
    /// (releaser, armed amount the harness expects it to return)
    rels: Vec<(A::Rel, usize)>,
    model: usize,
    serial: Serial,
    view: View,
    fp: u64,
}

const BOUND_TOTAL: usize = 3;
const FREE_TOTAL: usize = 24;
/// request sizes by index (index is what the event carries)
const SIZES: [usize; 6] = [0, 1, 2, 3, 5, 8];
const RELEASES: [usize; 5] = [0, 1, 2, 4, 7];
/// `big=1` configurations: amounts around isize::MAX / usize::MAX (totals stay below usize::MAX / 2 + what is
/// held, so that the crate's unchecked `permits += n` never overflows for real)
const SIZES_BIG: [usize; 6] = [0, 1, 1 << 61, (isize::MAX as usize) + 2, usize::MAX, 3];
const RELEASES_BIG: [usize; 5] = [0, 1, 1 << 60, 1 << 61, 2];
const BIG_TOTAL: usize = 1 << 62;

impl<A: SemApi> SemInner<A> {
    fn total(&self) -> usize {
        self.model + self.rels.iter().map(|r| r.1).sum::<usize>()
    }

    fn post(&mut self, ctx: &mut Ctx) {
        let mut regs = vec![];
        self.slots.regs(&mut regs);
        let sem = &self.sem;
        let slots = &self.slots;
        let fair = self.fair;
        self.view = inspect_and_check(ctx, Shape::List, regs, &mut |v| sem.inspect(v), &mut |r| slots.node_info(r.slot as usize), &|_, i| i.state == 1 || (i.state == 2 && fair));
        // C05 conservation
        if let Some(p) = call(ctx, "permits", 0, 0, || sem.permits()) {
            let m = self.model;
            ctx.check("C05", "permits-equals-ledger", true, p == m, || format!("permits()={} but ledger says {}", p, m));
        }
        // C06
        let pend: Vec<usize> = (0..self.slots.v.len()).filter(|i| self.slots.v[*i].pending()).collect();
        let nobody_woken = !pend.iter().any(|i| self.slots.v[*i].woken());
        let antecedent = !pend.is_empty() && nobody_woken;
        let head = pend.iter().copied().min_by_key(|i| self.slots.v[*i].wait_start);
        let ok = head.map_or(true, |h| self.slots.v[h].arg as usize > self.model);
        ctx.check("C06", "nobody-woken-implies-head-request-does-not-fit", antecedent, ok, || {
            let h = head.unwrap();
            format!(
                "pending slots {:?} (requests {:?}), none holds an unconsumed wake-up, but the longest-waiting slot {} needs {} <= {} available permits",
                pend,
                pend.iter().map(|i| self.slots.v[*i].arg).collect::<Vec<_>>(),
                h,
                self.slots.v[h].arg,
                self.model
            )
        });
        self.slots.check_terminated(ctx);
        // canonical order of the releaser bag
        self.rels.sort_by_key(|r| r.1);
        let mut f = Fp::new();
        f.add(self.model as u64);
        f.add(self.view.prim.count);
        for r in &self.rels {
            f.add(0x33 + r.1 as u64);
        }
        self.view.fp_queues(&mut f);
        self.slots.fp_slots(&mut f, &self.view);
        self.fp = f.get();
    }

    fn on_acquired(&mut self, ctx: &mut Ctx, who: Option<usize>, n: usize, my_wait_start: u64, model_before: usize) {
        ctx.check("C05", "acquisition-only-when-enough-permits", true, model_before >= n, || {
            format!("acquisition of {} completed with only {} permits available", n, model_before)
        });
        self.model = model_before.wrapping_sub(n);
        if self.fair && n > 0 {
            let earlier: Vec<usize> = (0..self.slots.v.len())
                .filter(|j| Some(*j) != who && self.slots.v[*j].pending() && self.slots.v[*j].wait_start < my_wait_start)
                .collect();
            let any = self.slots.v.iter().enumerate().any(|(j, s)| Some(j) != who && s.pending());
            ctx.check("C07", "fair-completion-respects-arrival-order", any, earlier.is_empty(), || {
                format!("fair semaphore: {:?} acquired {} permits while slots {:?} started waiting earlier", who, n, earlier)
            });
        }
    }
}

impl<A: SemApi> SemInner<A> {
    fn new(cfg: &str, k: usize, bounded: bool) -> Self {
        let fair = cfg_num(cfg, "fair", 0) == 1;
        let big = cfg_num(cfg, "big", 0) == 1 && !bounded;
        let init = if big { (1usize << 61) + cfg_num(cfg, "init", 0) as usize } else { cfg_num(cfg, "init", 0) as usize };
        let mut c = SemInner {
            sem: A::new(fair, init),
            fair,
            bounded,
            big,
            slots: Slots::new(k, 0),
            rels: vec![],
            model: init,
            serial: Serial(0),
            view: View::default(),
            fp: 0,
        };
        let mut ctx = Ctx::new();
        ctx.track_distinct = false;
        c.post(&mut ctx);
        c
    }

    fn enabled(&self, out: &mut Vec<Ev>) {
        let max_rel = if self.bounded { 2 } else { 6 };
        if self.rels.len() >= max_rel {
            for i in 0..self.rels.len() {
                out.push(Ev::new(DROP_REL, i as u8, 0));
            }
            return;
        }
        let mut created = false;
        for (i, s) in self.slots.v.iter().enumerate() {
            match &s.fut {
                None => {
                    if !created && !self.serial.exhausted() {
                        for n in 0..(if self.bounded { 3 } else { SIZES.len() as u8 }) {
                            out.push(Ev::new(CREATE, i as u8, n));
                        }
                        created = true;
                    }
                }
                Some(_) => {
                    if s.st != St::Done {
                        out.push(Ev::new(POLL, i as u8, 0));
                        out.push(Ev::new(POLL, i as u8, 1));
                    } else {
                        out.push(Ev::new(POLL_DONE, i as u8, 0));
                    }
                    out.push(Ev::new(DROP_FUT, i as u8, 0));
                }
            }
        }
        for n in 0..(if self.bounded { 3 } else { SIZES.len() as u8 }) {
            out.push(Ev::new(TRY_ACQUIRE, n, 0));
        }
        let cap = if self.bounded { BOUND_TOTAL } else { FREE_TOTAL };
        // release(0) is legal and must be a no-op
        for (ix, n) in RELEASES.iter().enumerate() {
            if self.bounded && ix > 2 {
                break;
            }
            if self.total() + n <= cap {
                out.push(Ev::new(RELEASE, ix as u8, 0));
            }
        }
        for i in 0..self.rels.len() {
            out.push(Ev::new(DROP_REL, i as u8, 0));
            // disarming twice is legal but only the distinct amounts matter
            if i == 0 || self.rels[i].1 != self.rels[i - 1].1 {
                out.push(Ev::new(DISARM, i as u8, 0));
            }
        }
    }

    fn weight(&self, ev: Ev, profile: u8) -> u32 {
        match (ev.k, profile) {
            (POLL_DONE, _) => 1,
            (CREATE, _) => 3,
            (POLL, 2) if self.slots.v[ev.a as usize].last_flavour != ev.b => 14,
            (POLL, _) => 6,
            (DROP_FUT, 1) => 14,
            (TRY_ACQUIRE, 3) => 8,
            (TRY_ACQUIRE, _) => 2,
            (DISARM, _) => 1,
            (RELEASE, _) if ev.a == 0 => 1,
            (RELEASE, _) => 5,
            (DROP_REL, _) => 5,
            _ => 4,
        }
    }

    fn step(&mut self, ev: Ev, ctx: &mut Ctx) {
        let a = ev.a as usize;
        match ev.k {
            CREATE => {
                let sem = &self.sem;
                let n = if self.big { SIZES_BIG[ev.b as usize] } else { SIZES[ev.b as usize] };
                self.slots.create(a, &mut self.serial, ctx, n as u64, || sem.acquire(n));
            }
            POLL => {
                let before = self.model;
                let was = self.slots.v[a].st;
                let ws = self.slots.v[a].wait_start;
                let was_woken = self.slots.v[a].woken();
                let n = self.slots.v[a].arg as usize;
                match self.slots.poll(a, ev.b, ctx, 0, 0) {
                    Some(Poll::Ready(r)) => {
                        let my = if was == St::Pending { ws } else { u64::MAX };
                        self.on_acquired(ctx, Some(a), n, my, before);
                        self.rels.push((r, n));
                    }
                    Some(Poll::Pending) => {
                        if was == St::Fresh && n == 0 {
                            let fair = self.fair;
                            ctx.check(if fair { "C07" } else { "C05" }, "zero-permit-request-completes-immediately", true, false, || {
                                "acquire(0) returned Pending on its first poll".into()
                            });
                        }
                        if was == St::Pending && was_woken && !self.fair {
                            // the woken future went back to waiting: its wait starts again
                            let s = &mut self.slots.v[a];
                            s.wait_start = s.last_poll;
                            ctx.count("unfair_requeue_restamps", 1);
                        }
                    }
                    None => {}
                }
            }
            DROP_FUT => {
                let info = self.view.info_of(0, a as u8);
                let pos = self.view.queued(0, a as u8);
                ctx.count(
                    &format!(
                        "drop[state={},pos={},swapped={}]",
                        info.map_or(9, |i| i.state),
                        match pos {
                            None => "unqueued",
                            Some((_, p)) if p == 0 && self.view.queues[0].len() == 1 => "only",
                            Some((_, 0)) => "front",
                            Some((_, p)) if p + 1 == self.view.queues[0].len() => "back",
                            _ => "middle",
                        },
                        (self.slots.v[a].flavours_used == 3) as u8
                    ),
                    1,
                );
                self.slots.drop_fut(a, ctx, 0);
            }
            TRY_ACQUIRE => {
                let a = if self.big { SIZES_BIG[a] } else { SIZES[a] };
                let before = self.model;
                let sem = &self.sem;
                match call(ctx, "try_acquire", 0, 0, || sem.try_acquire(a)) {
                    Some(Some(r)) => {
                        self.on_acquired(ctx, None, a, u64::MAX, before);
                        self.rels.push((r, a));
                    }
                    Some(None) => {
                        if a == 0 {
                            let fair = self.fair;
                            ctx.check(if fair { "C07" } else { "C05" }, "zero-permit-request-completes-immediately", true, false, || {
                                "try_acquire(0) returned None".into()
                            });
                        }
                    }
                    None => {}
                }
            }
            RELEASE => {
                let a = if self.big { RELEASES_BIG[a] } else { RELEASES[a] };
                let sem = &self.sem;
                let mark = crate::wakers::log_mark();
                call(ctx, "release", 0, 0, || sem.release(a));
                self.model += a;
                if a == 0 {
                    let woke = crate::wakers::log_mark() - mark;
                    ctx.check("C05", "release-of-zero-permits-is-a-no-op", true, woke == 0, || format!("release(0) woke {} waker(s)", woke));
                }
            }
            DROP_REL => {
                let (r, amt) = self.rels.remove(a);
                call(ctx, "drop-releaser", 0, 0, move || drop(r));
                self.model += amt;
            }
            DISARM => {
                let exp = self.rels[a].1;
                let r = &mut self.rels[a].0;
                if let Some(got) = call(ctx, "disarm", 0, 0, || A::disarm(r)) {
                    ctx.check("C05", "disarm-returns-the-held-amount-once", true, got == exp, || format!("disarm() returned {} expected {}", got, exp));
                }
                self.rels[a].1 = 0;
            }
            POLL_DONE => {
                let fut = self.slots.v[a].fut.as_mut().unwrap();
                let p = super::poll_after_done_panics(fut.as_mut());
                ctx.check("C17", "poll-after-completion-panics", true, p, || "polling a completed acquire future did not panic".into());
            }
            _ => unreachable!(),
        }
        self.post(ctx);
    }

    fn finish(mut self, ctx: &mut Ctx) {
        // drop the futures first, then the releasers: every permit must come home
        for i in 0..self.slots.v.len() {
            if self.slots.v[i].live() {
                self.slots.drop_fut(i, ctx, 0);
            }
        }
        while let Some((r, amt)) = self.rels.pop() {
            call(ctx, "drop-releaser", 0, 0, move || drop(r));
            self.model += amt;
        }
        self.post(ctx);
        let empty = self.view.queues[0].is_empty() && self.view.prim.head == 0 && self.view.prim.tail == 0;
        ctx.check("C01", "queue-empty-after-all-futures-dropped", crate::slots::inspect_on(), empty, || "wait queue not empty at the end of the history".into());
        self.sem.destroy();
    }
}

pub struct SemCore<M: RawMutex + 'static> {
    inner: SemKind<M>,
    _m: PhantomData<M>,
}

enum SemKind<M: RawMutex + 'static> {
    B(SemInner<Borrowed<M>>),
    S(SemInner<Shared<M>>),
}

impl<M: RawMutex + LockName + 'static> Core for SemCore<M> {
    fn new(cfg: &str, k: usize, bounded: bool) -> Self {
        let inner = if cfg_num(cfg, "shared", 0) == 1 {
            SemKind::S(SemInner::new(cfg, k, bounded))
        } else {
            SemKind::B(SemInner::new(cfg, k, bounded))
        };
        SemCore { inner, _m: PhantomData }
    }
    fn enabled(&self, out: &mut Vec<Ev>) {
        match &self.inner {
            SemKind::B(c) => c.enabled(out),
            SemKind::S(c) => c.enabled(out),
        }
    }
    fn weight(&self, ev: Ev, profile: u8) -> u32 {
        match &self.inner {
            SemKind::B(c) => c.weight(ev, profile),
            SemKind::S(c) => c.weight(ev, profile),
        }
    }
    fn step(&mut self, ev: Ev, ctx: &mut Ctx) {
        match &mut self.inner {
            SemKind::B(c) => c.step(ev, ctx),
            SemKind::S(c) => c.step(ev, ctx),
        }
    }
    fn fp(&self) -> u64 {
        match &self.inner {
            SemKind::B(c) => c.fp,
            SemKind::S(c) => c.fp,
        }
    }
    fn finish(self, ctx: &mut Ctx) {
        match self.inner {
            SemKind::B(c) => c.finish(ctx),
            SemKind::S(c) => c.finish(ctx),
        }
    }
}

crate::lock_dispatch!(SemDriver, SemCore, "semaphore", crate::hist::semaphore::configs, crate::hist::semaphore::ev_name, crate::hist::semaphore::scenarios);
