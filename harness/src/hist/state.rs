//! State broadcast histories, borrowed and shared: C13 (ids strictly
//! increase, receivers converge on the latest state), C11 (close semantics,
//! handle lifecycle), riders C01 / C17 / C18 / C20.

use super::{fl, Core};
use crate::engine::{Ctx, Ev, Tier};
use crate::locks::{cfg_num, LockName};
use crate::payload::{self, Payload, Val};
use crate::slots::{call, count_drop, inspect_and_check, NodeAccess, Serial, Shape, Slots, St, View};
use crate::util::Fp;
use futures_core::future::FusedFuture;
use futures_intrusive::channel::shared::{generic_state_broadcast_channel, GenericStateReceiver, GenericStateSender, StateReceiveFuture as SharedFut};
use futures_intrusive::channel::{ChannelSendError, CloseStatus, GenericStateBroadcastChannel, StateId, StateReceiveFuture};
use futures_intrusive::verif::Visit;
use lock_api::RawMutex;
use std::future::Future;
use std::marker::PhantomData;
use std::task::Poll;

crate::impl_node_access!(
    ['a, M, T: Clone] StateReceiveFuture<'a, M, T>,
    [M, T] SharedFut<M, T>,
);

/// rank of the "ahead" id (the helper channel's history length); sends per history stay far below
const AHEAD_RANK: usize = 5000;

pub const CREATE: u8 = 0;
pub const POLL: u8 = 1;
pub const DROP_FUT: u8 = 2;
pub const SEND: u8 = 3;
pub const CLOSE: u8 = 4;
pub const TRY_RECV: u8 = 5;
pub const CLONE_TX: u8 = 6;
pub const DROP_TX: u8 = 7;
pub const CLONE_RX: u8 = 8;
pub const DROP_RX: u8 = 9;
pub const POLL_DONE: u8 = 10;

pub fn ev_name(e: Ev) -> String {
    match e.k {
        CREATE => format!("Receive({},id#{})", e.a, e.b),
        POLL => format!("Poll({},{})", e.a, fl(e.b)),
        DROP_FUT => format!("DropFut({})", e.a),
        SEND => "Send()".into(),
        CLOSE => "Close()".into(),
        TRY_RECV => format!("TryReceive(id#{})", e.a),
        CLONE_TX => "CloneSender()".into(),
        DROP_TX => format!("DropSender({})", e.a),
        CLONE_RX => "CloneReceiver()".into(),
        DROP_RX => format!("DropReceiver({})", e.a),
        POLL_DONE => format!("PollAfterCompletion({})", e.a),
        255 => "EndOfHistoryAudit()".into(),
        _ => format!("?({},{},{})", e.k, e.a, e.b),
    }
}

pub fn configs(tier: Tier) -> Vec<String> {
    let mut v = vec![];
    for lock in ["local", "sync", "spin"] {
        if tier == Tier::Quick && lock == "spin" {
            continue;
        }
        for shared in 0..2 {
            v.push(format!("lock={},shared={}", lock, shared));
        }
    }
    v
}

pub fn scenarios(cfg: &str) -> Vec<Vec<Ev>> {
    let e = Ev::new;
    let mut v = vec![];
    // deep queues: n followers asleep at the latest id, interior ones cancelled, the next send (or close) reaches the rest
    for (n, cancel, newest_first) in crate::hist::deep_queue_patterns(&[5, 6, 8]) {
        for close in [false, true] {
            let mut s = vec![e(SEND, 0, 0), e(TRY_RECV, 0, 0)];
            for i in 0..n {
                s.push(e(CREATE, i, 1));
                s.push(e(POLL, i, (i % 2) as u8));
            }
            for c in &cancel {
                s.push(e(DROP_FUT, *c, 0));
            }
            s.push(if close { e(CLOSE, 0, 0) } else { e(SEND, 0, 0) });
            let mut rest = crate::hist::deep_rest(n, &cancel);
            if newest_first {
                rest.reverse();
            }
            for i in rest {
                s.push(e(POLL, i, 1));
            }
            v.push(s);
        }
    }
    v.extend(base_scenarios(cfg));
    v
}

fn base_scenarios(cfg: &str) -> Vec<Vec<Ev>> {
    let e = Ev::new;
    let mut v = vec![
        // follower asleep at id == latest, next send wakes it, waker swap in between
        vec![e(SEND, 0, 0), e(TRY_RECV, 0, 0), e(CREATE, 0, 1), e(POLL, 0, 0), e(POLL, 0, 1), e(SEND, 0, 0), e(POLL, 0, 0), e(CREATE, 1, 1), e(POLL, 1, 0), e(CREATE, 2, 2), e(POLL, 2, 0)],
    ];
    if cfg_num(cfg, "shared", 0) == 0 {
        // close with a receiver that has / has not seen the latest state
        v.push(vec![e(SEND, 0, 0), e(TRY_RECV, 0, 0), e(CREATE, 0, 1), e(POLL, 0, 0), e(CREATE, 1, 0), e(CLOSE, 0, 0), e(POLL, 0, 1), e(POLL, 1, 0), e(SEND, 0, 0), e(CLOSE, 0, 0)]);
    } else {
        v.push(vec![e(CLONE_TX, 0, 0), e(CLONE_RX, 0, 0), e(CREATE, 0, 0), e(POLL, 0, 0), e(DROP_TX, 0, 0), e(DROP_RX, 1, 0), e(SEND, 0, 0), e(POLL, 0, 1), e(DROP_TX, 0, 0)]);
    }
    v
}

pub trait StateApi: Sized {
    type Fut: Future<Output = Option<(StateId, Val)>> + FusedFuture + NodeAccess;
    const SHARED: bool;
    fn new() -> Self;
    fn n_tx(&self) -> usize;
    fn n_rx(&self) -> usize;
    fn send(&self, v: Val) -> Result<(), ChannelSendError<Val>>;
    fn close(&self) -> CloseStatus;
    fn receive(&self, id: StateId) -> Self::Fut;
    fn try_receive(&self, id: StateId) -> Option<(StateId, Val)>;
    fn inspect(&self, v: &mut dyn FnMut(Visit) -> bool);
    fn clone_tx(&mut self) {}
    fn drop_tx(&mut self, _i: usize) {}
    fn clone_rx(&mut self) {}
    fn drop_rx(&mut self, _i: usize) {}
    fn destroy(self);
}

pub struct BState<M: RawMutex + 'static>(crate::util::Leaked<GenericStateBroadcastChannel<M, Val>>);

impl<M: RawMutex + 'static> StateApi for BState<M> {
    type Fut = StateReceiveFuture<'static, M, Val>;
    const SHARED: bool = false;
    fn new() -> Self {
        let owner = crate::util::Leaked::new(GenericStateBroadcastChannel::new());
        BState(owner)
    }
    fn n_tx(&self) -> usize {
        1
    }
    fn n_rx(&self) -> usize {
        1
    }
    fn send(&self, v: Val) -> Result<(), ChannelSendError<Val>> {
        self.0.get().send(v)
    }
    fn close(&self) -> CloseStatus {
        self.0.get().close()
    }
    fn receive(&self, id: StateId) -> Self::Fut {
        self.0.get().receive(id)
    }
    fn try_receive(&self, id: StateId) -> Option<(StateId, Val)> {
        self.0.get().try_receive(id)
    }
    fn inspect(&self, v: &mut dyn FnMut(Visit) -> bool) {
        self.0.get().verif_inspect(v)
    }
    fn destroy(self) {
        // Safety: all futures have been dropped
        unsafe { self.0.reclaim() }
    }
}

pub struct SState<M: RawMutex + 'static> {
    tx: Vec<GenericStateSender<M, Val>>,
    rx: Vec<GenericStateReceiver<M, Val>>,
    chan: *const GenericStateBroadcastChannel<M, Val>,
}

impl<M: RawMutex + 'static> StateApi for SState<M> {
    type Fut = SharedFut<M, Val>;
    const SHARED: bool = true;
    fn new() -> Self {
        let (t, r) = generic_state_broadcast_channel::<M, Val>();
        let chan = t.verif_channel() as *const _;
        let mut tx = Vec::with_capacity(8);
        let mut rx = Vec::with_capacity(8);
        tx.push(t);
        rx.push(r);
        SState { tx, rx, chan }
    }
    fn n_tx(&self) -> usize {
        self.tx.len()
    }
    fn n_rx(&self) -> usize {
        self.rx.len()
    }
    fn send(&self, v: Val) -> Result<(), ChannelSendError<Val>> {
        self.tx[0].send(v)
    }
    fn close(&self) -> CloseStatus {
        unreachable!()
    }
    fn receive(&self, id: StateId) -> Self::Fut {
        self.rx[0].receive(id)
    }
    fn try_receive(&self, id: StateId) -> Option<(StateId, Val)> {
        self.rx[0].try_receive(id)
    }
    fn inspect(&self, v: &mut dyn FnMut(Visit) -> bool) {
        // Safety: only called while a handle or an unfinished future keeps the channel alive
        unsafe { (*self.chan).verif_inspect(v) }
    }
    fn clone_tx(&mut self) {
        let c = self.tx[0].clone();
        self.tx.push(c);
    }
    fn drop_tx(&mut self, i: usize) {
        self.tx.remove(i);
    }
    fn clone_rx(&mut self) {
        let c = self.rx[0].clone();
        self.rx.push(c);
    }
    fn drop_rx(&mut self, i: usize) {
        self.rx.remove(i);
    }
    fn destroy(self) {}
}

pub struct StateInner<A: StateApi> {
    api: A,
    closed: bool,
    /// tags in publication order; rank r (1-based) = pubs[r-1]
    pubs: Vec<u32>,
    /// observed StateId per rank (index 0 = StateId::new())
    ids: Vec<Option<StateId>>,
    /// ids that may be requested: (id, rank); [0] is StateId::new()
    known: Vec<(StateId, usize)>,
    somes: u64,
    slots: Slots<A::Fut>,
    base: u32,
    next_tag: u32,
    held: Vec<Val>,
    serial: Serial,
    view: View,
    fp: u64,
    bounded: bool,
}

impl<A: StateApi> StateInner<A> {
    fn holders(&self) -> usize {
        if !A::SHARED {
            return 1;
        }
        self.api.n_tx() + self.api.n_rx() + self.slots.v.iter().filter(|s| s.live() && s.st != St::Done).count()
    }
    fn latest(&self) -> usize {
        self.pubs.len()
    }

    fn post(&mut self, ctx: &mut Ctx) {
        if self.holders() == 0 {
            self.view = View::default();
            self.view.ok = true;
        } else {
            let mut regs = vec![];
            self.slots.regs(&mut regs);
            let api = &self.api;
            let slots = &self.slots;
            self.view = inspect_and_check(ctx, Shape::List, regs, &mut |v| api.inspect(v), &mut |r| slots.node_info(r.slot as usize), &|_, i| i.state == 1);
            let closed = self.view.prim.flag;
            let m = self.closed;
            let (tx, rx) = (self.api.n_tx(), self.api.n_rx());
            ctx.check("C11", "closed-exactly-when-closed-or-a-side-fully-dropped", true, closed == m, || {
                format!("channel closed flag = {} but model closed = {} (sender handles {}, receiver handles {})", closed, m, tx, rx)
            });
        }
        let latest = self.latest();
        for (i, s) in self.slots.v.iter().enumerate() {
            if s.pending() {
                let due = latest > s.arg as usize || self.closed;
                ctx.check("C11", "every-pending-future-woken-after-close", self.closed, s.woken(), || format!("slot {} is pending after close and was not woken", i));
                ctx.check("C13", "pending-receiver-woken-by-send-or-close", due, s.woken(), || {
                    format!("slot {} waits for something newer than rank {}, latest rank {}, closed {}: not woken through its latest waker", i, s.arg, latest, self.closed)
                });
            }
        }
        self.slots.check_terminated(ctx);
        let mut f = Fp::new();
        f.add(self.closed as u64);
        f.add(self.api.n_tx() as u64);
        f.add(self.api.n_rx() as u64);
        if self.bounded {
            f.add(latest as u64);
            for k in &self.known {
                f.add(k.1 as u64);
            }
        } else {
            f.add(latest.min(2) as u64);
            for k in &self.known {
                f.add(latest.saturating_sub(k.1).min(3) as u64 + if k.1 > latest { 7 } else { 0 });
            }
            for s in self.slots.v.iter_mut() {
                if s.live() {
                    s.fp_arg = Some((latest - (s.arg as usize).min(latest)).min(3) as u64 + if s.arg as usize > latest { 7 } else { 0 });
                }
            }
        }
        self.view.fp_queues(&mut f);
        self.slots.fp_slots(&mut f, &self.view);
        self.fp = f.get();
    }

    /// Checks a delivered (id, value) against the publication log.
    fn delivered(&mut self, ctx: &mut Ctx, req: (StateId, usize), got: (StateId, Val)) {
        let latest = self.latest();
        let (id, v) = got;
        let newer = latest > req.1;
        ctx.check("C13", "delivers-only-if-newer-than-requested", true, newer, || {
            format!("a state was delivered for request rank {} although the latest rank is {}", req.1, latest)
        });
        let want = self.pubs.last().copied().unwrap_or(0);
        ctx.check("C13", "delivers-the-most-recently-published-state", true, v.tag() == want, || {
            format!("delivered tag {} but the most recently published tag is {}", v.tag(), want)
        });
        ctx.check("C13", "delivered-id-larger-than-requested", true, id > req.0, || format!("delivered {:?} for request {:?}", id, req.0));
        // id <-> rank consistency, strictly increasing with the publication order
        if latest >= 1 {
            if self.ids.len() <= latest {
                self.ids.resize(latest + 1, None);
            }
            match self.ids[latest] {
                Some(known) => ctx.check("C13", "same-state-same-id", true, known == id, || format!("rank {} observed as {:?} and as {:?}", latest, known, id)),
                None => {
                    let below = self.ids[..latest].iter().flatten().all(|o| *o < id);
                    ctx.check("C13", "ids-strictly-increase-with-publication-order", true, below, || {
                        format!("rank {} got id {:?} which is not larger than the ids of earlier states {:?}", latest, id, &self.ids[..latest])
                    });
                    self.ids[latest] = Some(id);
                }
            }
            if !self.known.iter().any(|k| k.1 == latest) {
                self.known.push((id, latest));
                let fixed = if self.bounded { 1 } else { 2 };
                if self.known.len() > fixed + 2 {
                    self.known.remove(fixed);
                }
            }
        }
        self.somes += 1;
        self.held.push(v);
        if self.held.len() > 64 {
            self.held.clear();
        }
    }

    fn new(_cfg: &str, k: usize, bounded: bool) -> Self {
        let base = payload::reserve(if bounded { 8 } else { 4100 });
        // a StateId far ahead of this channel: minted on a helper channel with a longer history
        // (a follower that carries an id over from another channel). Nothing here is ever newer.
        let ahead = {
            let helper = futures_intrusive::channel::LocalStateBroadcastChannel::<u8>::new();
            let mut id = StateId::new();
            for _ in 0..AHEAD_RANK {
                let _ = helper.send(0);
            }
            if let Some((i, _)) = helper.try_receive(id) {
                id = i;
            }
            id
        };
        let mut c = StateInner {
            api: A::new(),
            closed: false,
            pubs: vec![],
            ids: vec![Some(StateId::new())],
            known: if bounded { vec![(StateId::new(), 0)] } else { vec![(StateId::new(), 0), (ahead, AHEAD_RANK)] },
            somes: 0,
            slots: Slots::new(k, 0),
            base,
            next_tag: base,
            held: Vec::with_capacity(80),
            serial: Serial(0),
            view: View::default(),
            fp: 0,
            bounded,
        };
        let mut ctx = Ctx::new();
        ctx.track_distinct = false;
        c.post(&mut ctx);
        c
    }

    fn enabled(&self, out: &mut Vec<Ev>) {
        let mut created = false;
        for (i, s) in self.slots.v.iter().enumerate() {
            match &s.fut {
                None => {
                    if !created && !self.serial.exhausted() && self.api.n_rx() > 0 {
                        for (j, _) in self.known.iter().enumerate() {
                            out.push(Ev::new(CREATE, i as u8, j as u8));
                        }
                        created = true;
                    }
                }
                Some(_) => {
                    if s.st != St::Done {
                        out.push(Ev::new(POLL, i as u8, 0));
                        out.push(Ev::new(POLL, i as u8, 1));
                    } else {
                        out.push(Ev::new(POLL_DONE, i as u8, 0));
                    }
                    out.push(Ev::new(DROP_FUT, i as u8, 0));
                }
            }
        }
        let max_sends = if self.bounded { 3 } else if cfg!(miri) { 300 } else { 4000 };
        if self.api.n_tx() > 0 && ((self.next_tag - self.base) as usize) < max_sends {
            out.push(Ev::new(SEND, 0, 0));
        }
        if self.api.n_rx() > 0 {
            for (j, _) in self.known.iter().enumerate() {
                out.push(Ev::new(TRY_RECV, j as u8, 0));
            }
        }
        if !A::SHARED {
            out.push(Ev::new(CLOSE, 0, 0));
        } else {
            let lim = if self.bounded { 2 } else { 5 };
            if self.api.n_tx() > 0 && self.api.n_tx() < lim {
                out.push(Ev::new(CLONE_TX, 0, 0));
            }
            if self.api.n_rx() > 0 && self.api.n_rx() < lim {
                out.push(Ev::new(CLONE_RX, 0, 0));
            }
            for i in 0..self.api.n_tx() {
                if i == 0 || i + 1 == self.api.n_tx() {
                    out.push(Ev::new(DROP_TX, i as u8, 0));
                }
            }
            for i in 0..self.api.n_rx() {
                if i == 0 || i + 1 == self.api.n_rx() {
                    out.push(Ev::new(DROP_RX, i as u8, 0));
                }
            }
        }
    }

    fn weight(&self, ev: Ev, profile: u8) -> u32 {
        match (ev.k, profile) {
            (POLL_DONE, _) => 1,
            (DROP_FUT, 1) => 12,
            (POLL, 2) if self.slots.v[ev.a as usize].last_flavour != ev.b => 12,
            (POLL, _) => 8,
            (CREATE, _) => 4,
            (CLOSE, _) => 1,
            (DROP_TX, _) | (DROP_RX, _) => 1,
            (CLONE_TX, _) | (CLONE_RX, _) => 2,
            (SEND, _) => 8,
            (TRY_RECV, _) => 3,
            _ => 4,
        }
    }

    fn step(&mut self, ev: Ev, ctx: &mut Ctx) {
        let a = ev.a as usize;
        match ev.k {
            CREATE => {
                let (id, rank) = self.known[ev.b as usize];
                let api = &self.api;
                self.slots.create(a, &mut self.serial, ctx, rank as u64, || api.receive(id));
            }
            POLL => {
                let rank = self.slots.v[a].arg as usize;
                let req_id = if rank == AHEAD_RANK { self.known.get(1).map(|k| k.0).unwrap_or_else(StateId::new) } else { self.ids.get(rank).copied().flatten().unwrap_or_else(StateId::new) };
                let newer = self.latest() > rank;
                let closed = self.closed;
                let last_holder = A::SHARED && self.holders() == 1;
                if let Some(p) = self.slots.poll(a, ev.b, ctx, 0, last_holder as u64) {
                    match p {
                        Poll::Pending => ctx.check("C13", "receive-pending-iff-nothing-newer-and-open", true, !newer && !closed, || {
                            format!("receive(rank {}) returned Pending with latest rank {} closed {}", rank, self.latest(), closed)
                        }),
                        Poll::Ready(None) => ctx.check("C13", "none-only-when-closed-and-latest-already-seen", true, closed && !newer, || {
                            format!("receive(rank {}) returned None with latest rank {} closed {}", rank, self.latest(), closed)
                        }),
                        Poll::Ready(Some(got)) => self.delivered(ctx, (req_id, rank), got),
                    }
                }
            }
            DROP_FUT => {
                count_drop(ctx, &self.view, 0, a as u8, self.slots.v[a].flavours_used);
                let last_holder = A::SHARED && self.holders() == 1 && self.slots.v[a].st != St::Done;
                self.slots.drop_fut(a, ctx, last_holder as u64);
            }
            SEND => {
                let t = self.next_tag;
                self.next_tag += 1;
                let api = &self.api;
                let v = Val::new(t);
                if let Some(r) = call(ctx, "send", 0, 0, move || api.send(v)) {
                    let closed = self.closed;
                    match r {
                        Ok(()) => {
                            ctx.check("C11", "send-after-close-fails", true, !closed, || "send succeeded on a closed channel".into());
                            self.pubs.push(t);
                        }
                        Err(ChannelSendError(v)) => {
                            ctx.check("C13", "send-on-open-channel-succeeds", true, closed, || "send failed on an open channel".into());
                            ctx.check("C11", "failed-send-returns-the-callers-value", true, v.tag() == t, || format!("send error returned tag {} instead of {}", v.tag(), t));
                        }
                    }
                }
            }
            TRY_RECV => {
                let (id, rank) = self.known[a];
                let api = &self.api;
                if let Some(r) = call(ctx, "try_receive", 0, 0, || api.try_receive(id)) {
                    let newer = self.latest() > rank;
                    match r {
                        None => ctx.check("C13", "try_receive-none-iff-nothing-newer", true, !newer, || {
                            format!("try_receive(rank {}) returned None although rank {} is published", rank, self.latest())
                        }),
                        Some(got) => self.delivered(ctx, (id, rank), got),
                    }
                }
            }
            CLOSE => {
                let api = &self.api;
                if let Some(st) = call(ctx, "close", 0, 0, || api.close()) {
                    let expect = if self.closed { CloseStatus::AlreadyClosed } else { CloseStatus::NewlyClosed };
                    ctx.check("C11", "close-is-newly-closed-once-then-already-closed", true, st == expect, || format!("close() returned {:?}, expected {:?}", st, expect));
                    self.closed = true;
                }
            }
            CLONE_TX => {
                let api = &mut self.api;
                call(ctx, "clone-sender", 0, 0, || api.clone_tx());
            }
            CLONE_RX => {
                let api = &mut self.api;
                call(ctx, "clone-receiver", 0, 0, || api.clone_rx());
            }
            DROP_TX => {
                let last_holder = self.holders() == 1;
                let api = &mut self.api;
                call(ctx, "drop-sender", 0, last_holder as u64, || api.drop_tx(a));
                if self.api.n_tx() == 0 {
                    self.closed = true;
                }
            }
            DROP_RX => {
                let last_holder = self.holders() == 1;
                let api = &mut self.api;
                call(ctx, "drop-receiver", 0, last_holder as u64, || api.drop_rx(a));
                if self.api.n_rx() == 0 {
                    self.closed = true;
                }
            }
            POLL_DONE => {
                let fut = self.slots.v[a].fut.as_mut().unwrap();
                let p = super::poll_after_done_panics(fut.as_mut());
                ctx.check("C17", "poll-after-completion-panics", true, p, || "polling a completed state receive future did not panic".into());
            }
            _ => unreachable!(),
        }
        self.post(ctx);
    }

    fn finish(mut self, ctx: &mut Ctx) {
        for i in 0..self.slots.v.len() {
            if self.slots.v[i].live() {
                let last_holder = A::SHARED && self.holders() == 1 && self.slots.v[i].st != St::Done;
                self.slots.drop_fut(i, ctx, last_holder as u64);
            }
        }
        self.post(ctx);
        if self.holders() > 0 {
            let empty = self.view.queues[0].is_empty() && self.view.prim.head == 0 && self.view.prim.tail == 0;
            ctx.check("C01", "queue-empty-after-all-futures-dropped", crate::slots::inspect_on(), empty, || "wait queue not empty at the end of the history".into());
        }
        self.held.clear();
        let (base, n) = (self.base, self.next_tag);
        if A::SHARED {
            drop(self.api)
        } else {
            self.api.destroy()
        }
        let mut clones = 0u64;
        for t in base..n {
            let d = payload::drops(t);
            let c = payload::clones(t);
            clones += c as u64;
            ctx.check("C13", "state-and-clones-dropped-exactly-once", true, d == 1 + c, || format!("tag {}: {} drops for 1 original + {} clones", t, d, c));
        }
        let _ = clones;
    }
}

pub struct StateCore<M: RawMutex + 'static> {
    inner: Kind<M>,
    _m: PhantomData<M>,
}
enum Kind<M: RawMutex + 'static> {
    B(StateInner<BState<M>>),
    S(StateInner<SState<M>>),
}
macro_rules! each {
    ($self:expr, $c:ident => $e:expr) => {
        match $self {
            Kind::B($c) => $e,
            Kind::S($c) => $e,
        }
    };
}
impl<M: RawMutex + LockName + 'static> Core for StateCore<M> {
    fn new(cfg: &str, k: usize, bounded: bool) -> Self {
        let inner = if cfg_num(cfg, "shared", 0) == 1 { Kind::S(StateInner::new(cfg, k, bounded)) } else { Kind::B(StateInner::new(cfg, k, bounded)) };
        StateCore { inner, _m: PhantomData }
    }
    fn enabled(&self, out: &mut Vec<Ev>) {
        each!(&self.inner, c => c.enabled(out))
    }
    fn weight(&self, ev: Ev, profile: u8) -> u32 {
        each!(&self.inner, c => c.weight(ev, profile))
    }
    fn step(&mut self, ev: Ev, ctx: &mut Ctx) {
        each!(&mut self.inner, c => c.step(ev, ctx))
    }
    fn fp(&self) -> u64 {
        each!(&self.inner, c => c.fp)
    }
    fn terminal(&self) -> bool {
        each!(&self.inner, c => c.closed)
    }
    fn finish(self, ctx: &mut Ctx) {
        each!(self.inner, c => c.finish(ctx))
    }
}

crate::lock_dispatch!(StateDriver, StateCore, "state", crate::hist::state::configs, crate::hist::state::ev_name, crate::hist::state::scenarios);
