//! Oneshot and oneshot-broadcast histories, borrowed and shared: C12 (one
//! value, to one or to all), C11 (close semantics, shared-handle lifecycle),
//! riders C01 / C17 / C18 / C20.

use super::{fl, Core};
use crate::engine::{Ctx, Ev, Tier};
use crate::locks::{cfg_get, cfg_num, LockName};
use crate::payload::{self, Payload, Val};
use crate::slots::{call, count_drop, inspect_and_check, NodeAccess, Serial, Shape, Slots, St, View};
use crate::util::Fp;
use futures_core::future::FusedFuture;
use futures_intrusive::channel::shared::{
    generic_oneshot_broadcast_channel, generic_oneshot_channel, ChannelReceiveFuture as SharedRecvFut, GenericOneshotBroadcastReceiver,
    GenericOneshotBroadcastSender, GenericOneshotReceiver, GenericOneshotSender,
};
use futures_intrusive::channel::{ChannelReceiveFuture, ChannelSendError, CloseStatus, GenericOneshotBroadcastChannel, GenericOneshotChannel};
use futures_intrusive::verif::Visit;
use lock_api::RawMutex;
use std::future::Future;
use std::marker::PhantomData;
use std::task::Poll;

crate::impl_node_access!(
    ['a, M, T] ChannelReceiveFuture<'a, M, T>,
    [M, T] SharedRecvFut<M, T>,
);

pub const CREATE: u8 = 0;
pub const POLL: u8 = 1;
pub const DROP_FUT: u8 = 2;
pub const SEND: u8 = 3;
pub const CLOSE: u8 = 4;
pub const DROP_TX: u8 = 5;
pub const CLONE_RX: u8 = 6;
pub const DROP_RX: u8 = 7;
pub const POLL_DONE: u8 = 8;

pub fn ev_name(e: Ev) -> String {
    match e.k {
        CREATE => format!("Receive({})", e.a),
        POLL => format!("Poll({},{})", e.a, fl(e.b)),
        DROP_FUT => format!("DropFut({})", e.a),
        SEND => "Send()".into(),
        CLOSE => "Close()".into(),
        DROP_TX => "DropSender()".into(),
        CLONE_RX => "CloneReceiver()".into(),
        DROP_RX => format!("DropReceiver({})", e.a),
        POLL_DONE => format!("PollAfterCompletion({})", e.a),
        255 => "EndOfHistoryAudit()".into(),
        _ => format!("?({},{},{})", e.k, e.a, e.b),
    }
}

pub fn configs(tier: Tier) -> Vec<String> {
    let mut v = vec![];
    for lock in ["local", "sync", "spin"] {
        if tier == Tier::Quick && lock == "spin" {
            continue;
        }
        for kind in ["oneshot", "broadcast"] {
            for shared in 0..2 {
                // the shared constructors require nothing of the lock; the local
                // flavour of the shared handles is exercised as well
                v.push(format!("lock={},kind={},shared={}", lock, kind, shared));
            }
        }
    }
    v
}

pub fn scenarios(cfg: &str) -> Vec<Vec<Ev>> {
    let e = Ev::new;
    let mut v = vec![];
    // deep queues: n receivers, interior ones cancelled, then the send (or the close) must reach all the others
    for (n, cancel, newest_first) in crate::hist::deep_queue_patterns(&[5, 6, 8]) {
        for close in [false, true] {
            let mut s = vec![];
            for i in 0..n {
                s.push(e(CREATE, i, 0));
                s.push(e(POLL, i, (i % 2) as u8));
            }
            for c in &cancel {
                s.push(e(DROP_FUT, *c, 0));
            }
            s.push(if close { e(CLOSE, 0, 0) } else { e(SEND, 0, 0) });
            let mut rest = crate::hist::deep_rest(n, &cancel);
            if newest_first {
                rest.reverse();
            }
            for i in rest {
                s.push(e(POLL, i, 1));
            }
            v.push(s);
        }
    }
    v.extend(base_scenarios(cfg));
    v
}

fn base_scenarios(cfg: &str) -> Vec<Vec<Ev>> {
    let e = Ev::new;
    let mut v = vec![
        // two receivers registered, waker swap, send, both polled
        vec![e(CREATE, 0, 0), e(POLL, 0, 0), e(CREATE, 1, 0), e(POLL, 1, 0), e(POLL, 0, 1), e(SEND, 0, 0), e(POLL, 1, 1), e(POLL, 0, 0), e(CREATE, 2, 0), e(POLL, 2, 0)],
    ];
    if cfg_num(cfg, "shared", 0) == 1 {
        // D3 shape: one clone of the receiver dropped, the channel must stay open
        v.push(vec![e(CLONE_RX, 0, 0), e(CREATE, 0, 0), e(POLL, 0, 0), e(DROP_RX, 1, 0), e(SEND, 0, 0), e(POLL, 0, 0)]);
        // future outlives all handles
        v.push(vec![e(CREATE, 0, 0), e(POLL, 0, 0), e(SEND, 0, 0), e(DROP_TX, 0, 0), e(DROP_RX, 0, 0), e(POLL, 0, 1)]);
    } else {
        v.push(vec![e(CREATE, 0, 0), e(POLL, 0, 0), e(CLOSE, 0, 0), e(SEND, 0, 0), e(CLOSE, 0, 0), e(POLL, 0, 1)]);
    }
    v
}

pub trait OneApi: Sized {
    type Fut: Future<Output = Option<Val>> + FusedFuture + NodeAccess;
    const BROADCAST: bool;
    const SHARED: bool;
    fn new() -> Self;
    fn has_tx(&self) -> bool;
    fn n_rx(&self) -> usize;
    fn send(&self, v: Val) -> Result<(), ChannelSendError<Val>>;
    fn close(&self) -> CloseStatus;
    fn receive(&self) -> Self::Fut;
    fn inspect(&self, v: &mut dyn FnMut(Visit) -> bool);
    fn drop_tx(&mut self);
    fn clone_rx(&mut self);
    fn drop_rx(&mut self, i: usize);
    fn destroy(self);
}

// ---------------------------------------------------------------- borrowed
pub struct BOneshot<M: RawMutex + 'static>(crate::util::Leaked<GenericOneshotChannel<M, Val>>);
pub struct BBroadcast<M: RawMutex + 'static>(crate::util::Leaked<GenericOneshotBroadcastChannel<M, Val>>);

macro_rules! borrowed_api {
    ($name:ident, $chan:ident, $bc:expr) => {
        impl<M: RawMutex + 'static> OneApi for $name<M> {
            type Fut = ChannelReceiveFuture<'static, M, Val>;
            const BROADCAST: bool = $bc;
            const SHARED: bool = false;
            fn new() -> Self {
                let owner = crate::util::Leaked::new($chan::new());
                $name(owner)
            }
            fn has_tx(&self) -> bool {
                true
            }
            fn n_rx(&self) -> usize {
                1
            }
            fn send(&self, v: Val) -> Result<(), ChannelSendError<Val>> {
                self.0.get().send(v)
            }
            fn close(&self) -> CloseStatus {
                self.0.get().close()
            }
            fn receive(&self) -> Self::Fut {
                self.0.get().receive()
            }
            fn inspect(&self, v: &mut dyn FnMut(Visit) -> bool) {
                self.0.get().verif_inspect(v)
            }
            fn drop_tx(&mut self) {}
            fn clone_rx(&mut self) {}
            fn drop_rx(&mut self, _i: usize) {}
            fn destroy(self) {
                // Safety: all futures have been dropped
                unsafe { self.0.reclaim() }
            }
        }
    };
}
borrowed_api!(BOneshot, GenericOneshotChannel, false);
borrowed_api!(BBroadcast, GenericOneshotBroadcastChannel, true);

// ---------------------------------------------------------------- shared
pub struct SOneshot<M: RawMutex + 'static> {
    tx: Option<GenericOneshotSender<M, Val>>,
    rx: Vec<GenericOneshotReceiver<M, Val>>,
    chan: *const GenericOneshotChannel<M, Val>,
}
pub struct SBroadcast<M: RawMutex + 'static> {
    tx: Option<GenericOneshotBroadcastSender<M, Val>>,
    rx: Vec<GenericOneshotBroadcastReceiver<M, Val>>,
    chan: *const GenericOneshotBroadcastChannel<M, Val>,
}

impl<M: RawMutex + 'static> OneApi for SOneshot<M> {
    type Fut = SharedRecvFut<M, Val>;
    const BROADCAST: bool = false;
    const SHARED: bool = true;
    fn new() -> Self {
        let (tx, rx) = generic_oneshot_channel::<M, Val>();
        let chan = tx.verif_channel() as *const _;
        { let mut v = Vec::with_capacity(4); v.push(rx); SOneshot { tx: Some(tx), rx: v, chan } }
    }
    fn has_tx(&self) -> bool {
        self.tx.is_some()
    }
    fn n_rx(&self) -> usize {
        self.rx.len()
    }
    fn send(&self, v: Val) -> Result<(), ChannelSendError<Val>> {
        self.tx.as_ref().unwrap().send(v)
    }
    fn close(&self) -> CloseStatus {
        unreachable!()
    }
    fn receive(&self) -> Self::Fut {
        self.rx[0].receive()
    }
    fn inspect(&self, v: &mut dyn FnMut(Visit) -> bool) {
        // Safety: only called while a handle or an unfinished future keeps the channel alive
        unsafe { (*self.chan).verif_inspect(v) }
    }
    fn drop_tx(&mut self) {
        self.tx = None;
    }
    fn clone_rx(&mut self) {}
    fn drop_rx(&mut self, i: usize) {
        self.rx.remove(i);
    }
    fn destroy(self) {}
}

impl<M: RawMutex + 'static> OneApi for SBroadcast<M> {
    type Fut = SharedRecvFut<M, Val>;
    const BROADCAST: bool = true;
    const SHARED: bool = true;
    fn new() -> Self {
        let (tx, rx) = generic_oneshot_broadcast_channel::<M, Val>();
        let chan = tx.verif_channel() as *const _;
        { let mut v = Vec::with_capacity(8); v.push(rx); SBroadcast { tx: Some(tx), rx: v, chan } }
    }
    fn has_tx(&self) -> bool {
        self.tx.is_some()
    }
    fn n_rx(&self) -> usize {
        self.rx.len()
    }
    fn send(&self, v: Val) -> Result<(), ChannelSendError<Val>> {
        self.tx.as_ref().unwrap().send(v)
    }
    fn close(&self) -> CloseStatus {
        unreachable!()
    }
    fn receive(&self) -> Self::Fut {
        self.rx[0].receive()
    }
    fn inspect(&self, v: &mut dyn FnMut(Visit) -> bool) {
        // Safety: only called while a handle or an unfinished future keeps the channel alive
        unsafe { (*self.chan).verif_inspect(v) }
    }
    fn drop_tx(&mut self) {
        self.tx = None;
    }
    fn clone_rx(&mut self) {
        let c = self.rx[0].clone();
        self.rx.push(c);
    }
    fn drop_rx(&mut self, i: usize) {
        self.rx.remove(i);
    }
    fn destroy(self) {}
}

#[derive(Clone, Copy, PartialEq, Eq, Debug)]
enum Model {
    Open,
    Value(u32),
    Taken,
    ClosedEmpty,
}

pub struct OneInner<A: OneApi> {
    api: A,
    model: Model,
    explicit_closes: u32,
    slots: Slots<A::Fut>,
    base: u32,
    next_tag: u32,
    /// number of `Some` results per tag (index = tag - base) (broadcast clone ledger)
    somes: Vec<u32>,
    /// values currently held by the harness (received), dropped at the end
    held: Vec<Val>,
    serial: Serial,
    view: View,
    fp: u64,
    bounded: bool,
}

impl<A: OneApi> OneInner<A> {
    fn holders(&self) -> usize {
        if !A::SHARED {
            return 1;
        }
        self.api.has_tx() as usize + self.api.n_rx() + self.slots.v.iter().filter(|s| s.live() && s.st != St::Done).count()
    }

    fn post(&mut self, ctx: &mut Ctx) {
        if self.holders() == 0 {
            // the shared state is gone; nothing left to observe
            self.view = View::default();
            self.view.ok = true;
        } else {
            let mut regs = vec![];
            self.slots.regs(&mut regs);
            let api = &self.api;
            let slots = &self.slots;
            self.view = inspect_and_check(ctx, Shape::List, regs, &mut |v| api.inspect(v), &mut |r| slots.node_info(r.slot as usize), &|_, i| i.state == 1);
            // C11: the channel is closed / fulfilled exactly when the model says so
            let closed = self.view.prim.flag;
            let m = self.model;
            let tx = self.api.has_tx();
            let rx = self.api.n_rx();
            ctx.check("C11", "closed-exactly-when-sent-closed-or-a-side-fully-dropped", true, closed == (m != Model::Open), || {
                format!("channel fulfilled/closed flag = {} but model state {:?} (sender alive: {}, receiver handles: {})", closed, m, tx, rx)
            });
        }
        // C12/C11: once a value was sent or the channel closed every pending receiver holds a wake-up
        for (i, s) in self.slots.v.iter().enumerate() {
            if s.pending() {
                let m = self.model;
                ctx.check("C12", "pending-receiver-woken-at-send-or-close", m != Model::Open, s.woken(), || {
                    format!("slot {} is pending, channel state {:?}, and it has not been woken through its latest waker", i, m)
                });
                ctx.check("C11", "every-pending-future-woken-after-close", m == Model::ClosedEmpty || m == Model::Taken, s.woken(), || {
                    format!("slot {} is pending after close (state {:?}) and was not woken", i, m)
                });
            }
        }
        self.slots.check_terminated(ctx);
        let mut f = Fp::new();
        f.add(match self.model {
            Model::Open => 0,
            Model::Value(_) => 1,
            Model::Taken => 2,
            Model::ClosedEmpty => 3,
        });
        f.add(self.api.has_tx() as u64);
        f.add(self.api.n_rx() as u64);
        f.add(self.held.len().min(1) as u64);
        self.view.fp_queues(&mut f);
        self.slots.fp_slots(&mut f, &self.view);
        self.fp = f.get();
    }

    fn implicit_close(&mut self) {
        if self.model == Model::Open {
            self.model = Model::ClosedEmpty;
        }
    }

    fn new(_cfg: &str, k: usize, bounded: bool) -> Self {
        let base = payload::reserve(if bounded { 8 } else { 4100 });
        let mut c = OneInner {
            api: A::new(),
            model: Model::Open,
            explicit_closes: 0,
            slots: Slots::new(k, 0),
            base,
            next_tag: base,
            somes: vec![0; 8],
            held: vec![],
            serial: Serial(0),
            view: View::default(),
            fp: 0,
            bounded,
        };
        let mut ctx = Ctx::new();
        ctx.track_distinct = false;
        c.post(&mut ctx);
        c
    }

    fn enabled(&self, out: &mut Vec<Ev>) {
        let mut created = false;
        for (i, s) in self.slots.v.iter().enumerate() {
            match &s.fut {
                None => {
                    if !created && !self.serial.exhausted() && self.api.n_rx() > 0 {
                        out.push(Ev::new(CREATE, i as u8, 0));
                        created = true;
                    }
                }
                Some(_) => {
                    if s.st != St::Done {
                        out.push(Ev::new(POLL, i as u8, 0));
                        out.push(Ev::new(POLL, i as u8, 1));
                    } else {
                        out.push(Ev::new(POLL_DONE, i as u8, 0));
                    }
                    out.push(Ev::new(DROP_FUT, i as u8, 0));
                }
            }
        }
        let max_tags = if self.bounded { 3 } else if cfg!(miri) { 300 } else { 4000 };
        if self.api.has_tx() && ((self.next_tag - self.base) as usize) < max_tags {
            out.push(Ev::new(SEND, 0, 0));
        }
        if !A::SHARED {
            out.push(Ev::new(CLOSE, 0, 0));
        } else {
            if self.api.has_tx() {
                out.push(Ev::new(DROP_TX, 0, 0));
            }
            if A::BROADCAST && self.api.n_rx() > 0 && self.api.n_rx() < (if self.bounded { 3 } else { 5 }) {
                out.push(Ev::new(CLONE_RX, 0, 0));
            }
            for i in 0..self.api.n_rx() {
                // handles are interchangeable: dropping the first or the last is enough
                if i == 0 || i + 1 == self.api.n_rx() {
                    out.push(Ev::new(DROP_RX, i as u8, 0));
                }
            }
        }
    }

    fn weight(&self, ev: Ev, profile: u8) -> u32 {
        match (ev.k, profile) {
            (POLL_DONE, _) => 1,
            (DROP_FUT, 1) => 12,
            (POLL, 2) if self.slots.v[ev.a as usize].last_flavour != ev.b => 12,
            (POLL, _) => 8,
            (CREATE, _) => 8,
            (CLOSE, _) | (DROP_TX, _) => 1,
            (DROP_RX, _) => 2,
            (CLONE_RX, _) => 3,
            (SEND, _) => 2,
            _ => 4,
        }
    }

    fn step(&mut self, ev: Ev, ctx: &mut Ctx) {
        let a = ev.a as usize;
        match ev.k {
            CREATE => {
                let api = &self.api;
                self.slots.create(a, &mut self.serial, ctx, 0, || api.receive());
            }
            POLL => {
                let m = self.model;
                // a shared future drops its Arc when it completes: may free the channel
                let last_holder = A::SHARED && self.holders() == 1;
                if let Some(p) = self.slots.poll(a, ev.b, ctx, 0, last_holder as u64) {
                    match (m, p) {
                        (Model::Open, Poll::Pending) => {}
                        (Model::Open, Poll::Ready(r)) => {
                            ctx.fail("C12", "receive-waits-while-open", format!("receive completed with {:?} on an open channel without value", r.as_ref().map(|v| v.tag())));
                            if let Some(v) = r {
                                self.held.push(v);
                            }
                        }
                        (Model::Value(t), Poll::Ready(Some(v))) => {
                            ctx.check("C12", "receive-yields-the-sent-value", true, v.tag() == t, || format!("received tag {} expected {}", v.tag(), t));
                            let ix = (t - self.base) as usize;
                            if ix < self.somes.len() {
                                self.somes[ix] += 1;
                            }
                            self.held.push(v);
                            if !A::BROADCAST {
                                self.model = Model::Taken;
                            }
                        }
                        (Model::Value(t), other) => {
                            ctx.fail("C12", "receive-yields-the-sent-value", format!("value {} was sent but receive returned {}", t, if other.is_pending() { "Pending" } else { "None" }));
                        }
                        (Model::Taken, Poll::Ready(None)) | (Model::ClosedEmpty, Poll::Ready(None)) => {
                            ctx.check("C12", "losers-get-none", true, true, String::new);
                        }
                        (st, Poll::Ready(Some(v))) => {
                            ctx.fail("C12", "exactly-one-receive-yields-the-value", format!("receive yielded tag {} in channel state {:?}", v.tag(), st));
                            self.held.push(v);
                        }
                        (st, Poll::Pending) => {
                            ctx.fail("C12", "receive-completes-once-sent-or-closed", format!("receive returned Pending in channel state {:?}", st));
                        }
                    }
                }
            }
            DROP_FUT => {
                count_drop(ctx, &self.view, 0, a as u8, self.slots.v[a].flavours_used);
                let last_holder = A::SHARED && self.holders() == 1 && self.slots.v[a].st != St::Done;
                self.slots.drop_fut(a, ctx, last_holder as u64);
            }
            SEND => {
                let t = self.next_tag;
                self.next_tag += 1;
                if ((t - self.base) as usize) >= self.somes.len() {
                    self.somes.resize((t - self.base) as usize + 8, 0);
                }
                let api = &self.api;
                let v = Val::new(t);
                if let Some(r) = call(ctx, "send", 0, 0, move || api.send(v)) {
                    let m = self.model;
                    match r {
                        Ok(()) => {
                            ctx.check("C12", "only-the-first-send-on-an-open-channel-succeeds", true, m == Model::Open, || format!("send succeeded in channel state {:?}", m));
                            self.model = Model::Value(t);
                        }
                        Err(ChannelSendError(v)) => {
                            ctx.check("C12", "first-send-on-open-channel-succeeds", true, m != Model::Open, || "send failed on an open, empty channel".into());
                            ctx.check("C11", "failed-send-returns-the-callers-value", true, v.tag() == t, || format!("send error returned tag {} instead of {}", v.tag(), t));
                            drop(v);
                        }
                    }
                }
            }
            CLOSE => {
                let api = &self.api;
                if let Some(st) = call(ctx, "close", 0, 0, || api.close()) {
                    let expect = if self.model == Model::Open { CloseStatus::NewlyClosed } else { CloseStatus::AlreadyClosed };
                    let m = self.model;
                    ctx.check("C11", "close-is-newly-closed-once-then-already-closed", true, st == expect, || format!("close() returned {:?} in state {:?}", st, m));
                    self.explicit_closes += 1;
                    self.implicit_close();
                }
            }
            DROP_TX => {
                let api = &mut self.api;
                let last = self.slots.v.iter().filter(|s| s.live() && s.st != St::Done).count() == 0 && api.n_rx() == 0;
                call(ctx, "drop-sender", 0, last as u64, || api.drop_tx());
                self.implicit_close();
            }
            CLONE_RX => {
                let api = &mut self.api;
                call(ctx, "clone-receiver", 0, 0, || api.clone_rx());
            }
            DROP_RX => {
                let last_holder = self.holders() == 1;
                let api = &mut self.api;
                call(ctx, "drop-receiver", 0, last_holder as u64, || api.drop_rx(a));
                if self.api.n_rx() == 0 {
                    self.implicit_close();
                }
            }
            POLL_DONE => {
                let fut = self.slots.v[a].fut.as_mut().unwrap();
                let p = super::poll_after_done_panics(fut.as_mut());
                ctx.check("C17", "poll-after-completion-panics", true, p, || "polling a completed receive future did not panic".into());
            }
            _ => unreachable!(),
        }
        self.post(ctx);
    }

    fn finish(mut self, ctx: &mut Ctx) {
        for i in 0..self.slots.v.len() {
            if self.slots.v[i].live() {
                let last_holder = A::SHARED && self.holders() == 1 && self.slots.v[i].st != St::Done;
                self.slots.drop_fut(i, ctx, last_holder as u64);
            }
        }
        self.post(ctx);
        if self.holders() > 0 {
            let empty = self.view.queues[0].is_empty() && self.view.prim.head == 0 && self.view.prim.tail == 0;
            ctx.check("C01", "queue-empty-after-all-futures-dropped", crate::slots::inspect_on(), empty, || "wait queue not empty at the end of the history".into());
        }
        self.held.clear();
        let n = self.next_tag;
        let somes = std::mem::take(&mut self.somes);
        self.api.destroy_all();
        // every value and every clone of it dropped exactly once
        for t in self.base..n {
            let d = payload::drops(t);
            let c = payload::clones(t);
            ctx.check("C12", "value-and-clones-dropped-exactly-once", true, d == 1 + c, || format!("tag {}: {} drops for 1 original + {} clones", t, d, c));
            let s = somes.get((t - self.base) as usize).copied().unwrap_or(0);
            let exp = if A::BROADCAST { s } else { 0 };
            ctx.check("C12", "broadcast-delivers-clones-oneshot-moves", s > 0, c == exp, || format!("tag {}: {} clones made for {} successful receives", t, c, s));
        }
    }
}

trait DestroyAll {
    fn destroy_all(self);
}
impl<A: OneApi> DestroyAll for A {
    fn destroy_all(self) {
        // shared: dropping the struct drops the remaining handles; borrowed: free the box
        if A::SHARED {
            drop(self)
        } else {
            self.destroy()
        }
    }
}

pub struct OneCore<M: RawMutex + 'static> {
    inner: Kind<M>,
    _m: PhantomData<M>,
}

enum Kind<M: RawMutex + 'static> {
    BO(OneInner<BOneshot<M>>),
    BB(OneInner<BBroadcast<M>>),
    SO(OneInner<SOneshot<M>>),
    SB(OneInner<SBroadcast<M>>),
}

macro_rules! each {
    ($self:expr, $c:ident => $e:expr) => {
        match $self {
            Kind::BO($c) => $e,
            Kind::BB($c) => $e,
            Kind::SO($c) => $e,
            Kind::SB($c) => $e,
        }
    };
}

impl<M: RawMutex + LockName + 'static> Core for OneCore<M> {
    fn new(cfg: &str, k: usize, bounded: bool) -> Self {
        let shared = cfg_num(cfg, "shared", 0) == 1;
        let bc = cfg_get(cfg, "kind") == Some("broadcast");
        let inner = match (shared, bc) {
            (false, false) => Kind::BO(OneInner::new(cfg, k, bounded)),
            (false, true) => Kind::BB(OneInner::new(cfg, k, bounded)),
            (true, false) => Kind::SO(OneInner::new(cfg, k, bounded)),
            (true, true) => Kind::SB(OneInner::new(cfg, k, bounded)),
        };
        OneCore { inner, _m: PhantomData }
    }
    fn enabled(&self, out: &mut Vec<Ev>) {
        each!(&self.inner, c => c.enabled(out))
    }
    fn weight(&self, ev: Ev, profile: u8) -> u32 {
        each!(&self.inner, c => c.weight(ev, profile))
    }
    fn step(&mut self, ev: Ev, ctx: &mut Ctx) {
        each!(&mut self.inner, c => c.step(ev, ctx))
    }
    fn fp(&self) -> u64 {
        each!(&self.inner, c => c.fp)
    }
    fn terminal(&self) -> bool {
        each!(&self.inner, c => matches!(c.model, Model::Taken | Model::ClosedEmpty))
    }
    fn finish(self, ctx: &mut Ctx) {
        each!(self.inner, c => c.finish(ctx))
    }
}

crate::lock_dispatch!(OneshotDriver, OneCore, "oneshot", crate::hist::oneshot::configs, crate::hist::oneshot::ev_name, crate::hist::oneshot::scenarios);
