//! Timer histories: C15 (never early, nothing due missed, deadline order,
//! exact next_expiration, delay = deadline(now+d) saturating), riders.

use super::{fl, Core};
use crate::engine::{Ctx, Ev, Tier};
use crate::locks::{cfg_get, LockName};
use crate::slots::{call, count_drop, inspect_and_check, NodeAccess, Serial, Shape, Slots, St, View};
use crate::util::Fp;
use crate::wakers;
use futures_core::future::FusedFuture;
use futures_intrusive::timer::{GenericTimerService, LocalTimer, LocalTimerFuture, MockClock, TimerFuture};
use futures_intrusive::verif::NodeInfo;
use lock_api::RawMutex;
use std::future::Future;
use std::pin::Pin;
use std::task::{Context, Poll};
use std::time::Duration;

pub const CREATE: u8 = 0; // deadline(DEADLINES[b])
pub const CREATE_DELAY: u8 = 1; // delay(DELAYS[b])
pub const POLL: u8 = 2;
pub const DROP_FUT: u8 = 3;
pub const ADVANCE: u8 = 4;
pub const CHECK: u8 = 5;
pub const POLL_DONE: u8 = 6;

const DEADLINES: [u64; 6] = [5, 10, 20, 30, 1_000, u64::MAX];
const STEPS: [u64; 3] = [5, 1, 10];
const CLOCK_MAX_BOUNDED: u64 = 15;
const CLOCK_MAX_FREE: u64 = 100_000;

fn delays(i: u8) -> Duration {
    match i {
        0 => Duration::from_millis(0),
        1 => Duration::from_millis(5),
        2 => Duration::from_millis(15),
        3 => Duration::MAX,
        // 2^64 + 384 milliseconds: must saturate, not truncate to 384
        _ => Duration::from_secs(18_446_744_073_709_552),
    }
}

pub fn ev_name(e: Ev) -> String {
    match e.k {
        CREATE => format!("Deadline({},t={})", e.a, DEADLINES[e.b as usize]),
        CREATE_DELAY => format!("Delay({},d={:?})", e.a, delays(e.b)),
        POLL => format!("Poll({},{})", e.a, fl(e.b)),
        DROP_FUT => format!("DropFut({})", e.a),
        ADVANCE => format!("Advance(+{})", STEPS[e.a as usize]),
        CHECK => "CheckExpirations()".into(),
        POLL_DONE => format!("PollAfterCompletion({})", e.a),
        255 => "EndOfHistoryAudit()".into(),
        _ => format!("?({},{},{})", e.k, e.a, e.b),
    }
}

pub fn configs(tier: Tier) -> Vec<String> {
    let mut v = vec!["lock=local,api=local".to_string(), "lock=sync,api=local".to_string(), "lock=sync,api=sync".to_string()];
    if tier == Tier::Thorough {
        v.push("lock=spin,api=sync".to_string());
        v.push("lock=spin,api=local".to_string());
    }
    v
}

pub fn scenarios(_cfg: &str) -> Vec<Vec<Ev>> {
    let e = Ev::new;
    let mut v = base_scenarios();
    // deep heaps: 6-8 registered timers (ascending, descending, zig-zag and duplicate deadlines), one or two cancelled,
    // then the clock advances step by step with a check after every step; the heap is restructured by every removal
    let orders: [&[u8]; 5] = [&[0, 1, 2, 3, 4, 4, 3, 2], &[4, 3, 2, 1, 0, 0, 1, 2], &[2, 0, 3, 1, 4, 2, 0, 3], &[0, 1, 1, 2, 2, 2, 3, 3], &[1, 0, 3, 2, 2, 4, 1, 0]];
    for order in orders {
        for (n, cancel, newest_first) in crate::hist::deep_queue_patterns(&[6, 8]) {
            let mut s = vec![];
            for i in 0..n {
                s.push(e(CREATE, i, order[i as usize]));
                s.push(e(POLL, i, (i % 2) as u8));
            }
            let mut rest = crate::hist::deep_rest(n, &cancel);
            if newest_first {
                // expire the earliest deadline first, then cancel: removal of nodes with parent, siblings and children
                s.push(e(ADVANCE, 0, 0));
                s.push(e(CHECK, 0, 0));
                rest.reverse();
            }
            for c in &cancel {
                s.push(e(DROP_FUT, *c, 0));
            }
            for _ in 0..4 {
                s.push(e(ADVANCE, 2, 0));
                s.push(e(CHECK, 0, 0));
                for i in &rest {
                    s.push(e(POLL, *i, 1));
                }
            }
            v.push(s);
        }
    }
    v
}

fn base_scenarios() -> Vec<Vec<Ev>> {
    let e = Ev::new;
    vec![
        // equal deadlines, removal from the middle of the heap, waker swap, expiry
        vec![e(CREATE, 0, 1), e(POLL, 0, 0), e(CREATE, 1, 1), e(POLL, 1, 0), e(CREATE, 2, 0), e(POLL, 2, 0), e(POLL, 1, 1), e(DROP_FUT, 0, 0), e(ADVANCE, 2, 0), e(CHECK, 0, 0), e(POLL, 1, 0), e(POLL, 2, 1)],
        // due but not yet checked: must stay pending; then check
        vec![e(CREATE, 0, 0), e(POLL, 0, 0), e(ADVANCE, 2, 0), e(POLL, 0, 1), e(CREATE, 1, 0), e(POLL, 1, 0), e(CHECK, 0, 0), e(POLL, 0, 0)],
    ]
}

/// Either flavour of timer future behind one type.
pub enum TFut {
    L(LocalTimerFuture<'static>),
    T(TimerFuture<'static>),
}

impl Future for TFut {
    type Output = ();
    fn poll(self: Pin<&mut Self>, cx: &mut Context<'_>) -> Poll<()> {
        // Safety: pure structural projection, nothing is moved
        unsafe {
            match self.get_unchecked_mut() {
                TFut::L(f) => Pin::new_unchecked(f).poll(cx),
                TFut::T(f) => Pin::new_unchecked(f).poll(cx),
            }
        }
    }
}
impl FusedFuture for TFut {
    fn is_terminated(&self) -> bool {
        match self {
            TFut::L(f) => f.is_terminated(),
            TFut::T(f) => f.is_terminated(),
        }
    }
}
impl NodeAccess for TFut {
    fn node_addr(&self) -> usize {
        match self {
            TFut::L(f) => f.verif_node_addr(),
            TFut::T(f) => f.verif_node_addr(),
        }
    }
    unsafe fn node_info(&self) -> NodeInfo {
        match self {
            TFut::L(f) => f.verif_node_info(),
            TFut::T(f) => f.verif_node_info(),
        }
    }
}

/// How to obtain futures from a service with lock `M` through the `Timer`
/// (thread-safe) trait – only available for `M: Sync`.
pub trait SyncApi: RawMutex + Sized + 'static {
    fn deadline(svc: &'static GenericTimerService<Self>, t: u64) -> Option<TFut>;
    fn delay(svc: &'static GenericTimerService<Self>, d: Duration) -> Option<TFut>;
}
impl SyncApi for crate::locks::Noop {
    fn deadline(_: &'static GenericTimerService<Self>, _: u64) -> Option<TFut> {
        None
    }
    fn delay(_: &'static GenericTimerService<Self>, _: Duration) -> Option<TFut> {
        None
    }
}
macro_rules! sync_api {
    ($t:ty) => {
        impl SyncApi for $t {
            fn deadline(svc: &'static GenericTimerService<Self>, t: u64) -> Option<TFut> {
                Some(TFut::T(futures_intrusive::timer::Timer::deadline(svc, t)))
            }
            fn delay(svc: &'static GenericTimerService<Self>, d: Duration) -> Option<TFut> {
                Some(TFut::T(futures_intrusive::timer::Timer::delay(svc, d)))
            }
        }
    };
}
sync_api!(crate::locks::Pl);
sync_api!(crate::locks::Spin);

pub struct TimerCore<M: RawMutex + 'static> {
    owners: (crate::util::Leaked<MockClock>, crate::util::Leaked<GenericTimerService<M>>),
    sync_api: bool,
    bounded: bool,
    now: u64,
    slots: Slots<TFut>,
    /// per slot: expired by a check_expirations call (model)
    expired: Vec<bool>,
    serial: Serial,
    view: View,
    fp: u64,
}

impl<M: SyncApi + LockName> TimerCore<M> {
    fn registered(&self, i: usize) -> bool {
        self.slots.v[i].pending() && !self.expired[i]
    }

    fn post(&mut self, ctx: &mut Ctx) {
        let mut regs = vec![];
        self.slots.regs(&mut regs);
        let svc: &'static GenericTimerService<M> = self.owners.1.get();
        let slots = &self.slots;
        self.view = inspect_and_check(ctx, Shape::Heap, regs, &mut |v| svc.verif_inspect(v), &mut |r| slots.node_info(r.slot as usize), &|_, i| i.state == 1);
        // next_expiration() == min deadline of registered, not expired, live futures
        let expect = (0..self.slots.v.len()).filter(|i| self.registered(*i)).map(|i| self.slots.v[i].arg).min();
        if let Some(got) = call(ctx, "next_expiration", 0, 0, || svc.next_expiration()) {
            ctx.check("C15", "next_expiration-is-min-registered-deadline", true, got == expect, || {
                format!("next_expiration()={:?}, smallest registered deadline is {:?}", got, expect)
            });
        }
        // exactly the registered futures are in the heap
        if self.view.ok && crate::slots::inspect_on() {
            for i in 0..self.slots.v.len() {
                if self.slots.v[i].live() {
                    let q = self.view.queued(0, i as u8).is_some();
                    let r = self.registered(i);
                    ctx.check("C15", "heap-holds-exactly-the-registered-timers", true, q == r, || {
                        format!("slot {} (deadline {}) queued={} but model registered={}", i, self.slots.v[i].arg, q, r)
                    });
                }
            }
        }
        self.slots.check_terminated(ctx);
        let mut f = Fp::new();
        if self.bounded {
            f.add(self.now);
        } else {
            // unbounded runs: abstract the clock and the deadlines (only used for
            // novelty and for counting distinct cases, not for de-duplication)
            f.add(DEADLINES.iter().filter(|d| **d <= self.now).count() as u64);
            let mut dls: Vec<u64> = self.slots.v.iter().filter(|s| s.live()).map(|s| s.arg).collect();
            dls.sort();
            dls.dedup();
            let now = self.now;
            for s in self.slots.v.iter_mut() {
                if s.live() {
                    let rank = dls.iter().position(|d| *d == s.arg).unwrap() as u64;
                    s.fp_arg = Some((rank << 1) | (s.arg <= now) as u64);
                }
            }
        }
        // heap shape: DFS order with parent positions
        let mut shape = Fp::new();
        for ri in &self.view.queues[0] {
            let r = &self.view.regs[*ri];
            let info = self.view.infos[*ri].unwrap();
            let parent_pos = self.view.queues[0].iter().position(|x| self.view.regs[*x].addr == info.parent).map_or(99, |p| p as u64);
            shape.add(parent_pos);
            shape.add(self.slots.v[r.slot as usize].fp_arg.unwrap_or(info.arg));
            f.add(r.slot as u64);
            f.add(parent_pos);
        }
        ctx.aux_sets.entry("heap_shapes").or_default().insert(shape.get());
        for (i, e) in self.expired.iter().enumerate() {
            f.add((*e as u64) << i);
        }
        self.slots.fp_slots(&mut f, &self.view);
        self.fp = f.get();
    }

    fn created(&mut self, a: usize, ctx: &mut Ctx, expect_deadline: u64) {
        self.expired[a] = false;
        if self.slots.v[a].live() {
            self.slots.v[a].arg = expect_deadline;
            let got = self.slots.node_info(a).arg;
            ctx.check("C15", "delay-is-deadline-now-plus-d-saturating", true, got == expect_deadline, || {
                format!("timer created at now={} has deadline {} expected {}", self.now, got, expect_deadline)
            });
        }
    }
}

impl<M: SyncApi + LockName> Core for TimerCore<M> {
    fn new(cfg: &str, k: usize, bounded: bool) -> Self {
        let oc = crate::util::Leaked::new(MockClock::new());
        let clock: &'static MockClock = oc.get();
        let os = crate::util::Leaked::new(GenericTimerService::new(clock));
        let svc: &'static GenericTimerService<M> = os.get();
        let _ = svc;
        let mut c = TimerCore {
            owners: (oc, os),
            sync_api: cfg_get(cfg, "api") == Some("sync"),
            bounded,
            now: 0,
            slots: Slots::new(k, 0),
            expired: vec![false; k],
            serial: Serial(0),
            view: View::default(),
            fp: 0,
        };
        let mut ctx = Ctx::new();
        ctx.track_distinct = false;
        c.post(&mut ctx);
        c
    }

    fn enabled(&self, out: &mut Vec<Ev>) {
        let mut created = false;
        for (i, s) in self.slots.v.iter().enumerate() {
            match &s.fut {
                None => {
                    if !created && !self.serial.exhausted() {
                        // bounded runs: deadlines {5,10}, delays {0,5,MAX}, clock steps of 5 up to 15
                        for d in 0..(if self.bounded { 2 } else { DEADLINES.len() }) {
                            out.push(Ev::new(CREATE, i as u8, d as u8));
                        }
                        for d in 0..5 {
                            if self.bounded && (d == 2 || d == 4) {
                                continue;
                            }
                            out.push(Ev::new(CREATE_DELAY, i as u8, d));
                        }
                        created = true;
                    }
                }
                Some(_) => {
                    if s.st != St::Done {
                        out.push(Ev::new(POLL, i as u8, 0));
                        out.push(Ev::new(POLL, i as u8, 1));
                    } else {
                        out.push(Ev::new(POLL_DONE, i as u8, 0));
                    }
                    out.push(Ev::new(DROP_FUT, i as u8, 0));
                }
            }
        }
        let max = if self.bounded { CLOCK_MAX_BOUNDED } else { CLOCK_MAX_FREE };
        for (i, st) in STEPS.iter().enumerate() {
            if self.bounded && i > 0 {
                break;
            }
            if self.now + st <= max {
                out.push(Ev::new(ADVANCE, i as u8, 0));
            }
        }
        out.push(Ev::new(CHECK, 0, 0));
    }

    fn weight(&self, ev: Ev, profile: u8) -> u32 {
        match (ev.k, profile) {
            (POLL_DONE, _) => 1,
            (CREATE, _) | (CREATE_DELAY, _) => 2,
            (DROP_FUT, 1) => 12,
            (POLL, 2) if self.slots.v[ev.a as usize].last_flavour != ev.b => 12,
            (POLL, _) => 6,
            (ADVANCE, _) => 3,
            (CHECK, _) => 8,
            _ => 4,
        }
    }

    fn step(&mut self, ev: Ev, ctx: &mut Ctx) {
        let a = ev.a as usize;
        let svc: &'static GenericTimerService<M> = self.owners.1.get();
        match ev.k {
            CREATE => {
                let t = DEADLINES[ev.b as usize];
                let sync_api = self.sync_api;
                self.slots.create(a, &mut self.serial, ctx, t, || {
                    if sync_api {
                        M::deadline(svc, t).unwrap_or_else(|| TFut::L(LocalTimer::deadline(svc, t)))
                    } else {
                        TFut::L(LocalTimer::deadline(svc, t))
                    }
                });
                self.created(a, ctx, t);
            }
            CREATE_DELAY => {
                let d = delays(ev.b);
                let ms = std::cmp::min(d.as_millis(), u64::MAX as u128) as u64;
                let t = self.now.saturating_add(ms);
                let sync_api = self.sync_api;
                self.slots.create(a, &mut self.serial, ctx, t, || {
                    if sync_api {
                        M::delay(svc, d).unwrap_or_else(|| TFut::L(LocalTimer::delay(svc, d)))
                    } else {
                        TFut::L(LocalTimer::delay(svc, d))
                    }
                });
                self.created(a, ctx, t);
            }
            POLL => {
                let was = self.slots.v[a].st;
                let deadline = self.slots.v[a].arg;
                let expect_ready = match was {
                    St::Fresh => self.now >= deadline,
                    _ => self.expired[a],
                };
                if let Some(p) = self.slots.poll(a, ev.b, ctx, 0, 0) {
                    let ready = p.is_ready();
                    let now = self.now;
                    ctx.check("C15", "never-early", ready, now >= deadline, || format!("timer with deadline {} completed at clock {}", deadline, now));
                    ctx.check("C15", "completes-at-first-poll-if-due-else-only-after-check_expirations", true, ready == expect_ready, || {
                        format!(
                            "poll returned ready={} (deadline {}, clock {}, first poll: {}, expired by a check: {})",
                            ready,
                            deadline,
                            now,
                            was == St::Fresh,
                            self.expired[a]
                        )
                    });
                }
            }
            DROP_FUT => {
                count_drop(ctx, &self.view, 0, a as u8, self.slots.v[a].flavours_used);
                self.slots.drop_fut(a, ctx, 0);
                self.expired[a] = false;
            }
            ADVANCE => {
                self.now += STEPS[a];
                self.owners.0.get().set_time(self.now);
            }
            CHECK => {
                let due: Vec<usize> = (0..self.slots.v.len()).filter(|i| self.registered(*i) && self.slots.v[*i].arg <= self.now).collect();
                let not_due: Vec<usize> = (0..self.slots.v.len()).filter(|i| self.registered(*i) && self.slots.v[*i].arg > self.now).collect();
                let mark = wakers::log_mark();
                call(ctx, "check_expirations", 0, 0, || svc.check_expirations());
                let mut woken_ids = vec![];
                wakers::log_since(mark, &mut woken_ids);
                // all due timers woken through their latest waker
                for i in &due {
                    let s = &self.slots.v[*i];
                    let hit = woken_ids.iter().filter(|w| **w as usize == s.last_waker).count();
                    ctx.check("C15", "due-timer-woken-through-latest-waker", true, hit == 1, || {
                        format!("slot {} (deadline {}) is due at clock {} but its latest waker was woken {} times; wakes: {:?}", i, s.arg, self.now, hit, woken_ids)
                    });
                }
                // nothing else woken
                let due_ids: Vec<u32> = due.iter().map(|i| self.slots.v[*i].last_waker as u32).collect();
                let extra: Vec<u32> = woken_ids.iter().copied().filter(|w| !due_ids.contains(w)).collect();
                ctx.check("C15", "only-due-timers-woken", !not_due.is_empty() || !due.is_empty(), extra.is_empty(), || {
                    format!("check_expirations at clock {} woke wakers {:?} which do not belong to due timers (not due: {:?})", self.now, extra, not_due)
                });
                // wake order is non-decreasing in deadline
                let dl: Vec<u64> = woken_ids
                    .iter()
                    .filter_map(|w| due.iter().find(|i| self.slots.v[**i].last_waker as u32 == *w).map(|i| self.slots.v[*i].arg))
                    .collect();
                ctx.check("C15", "wake-order-non-decreasing-in-deadline", dl.len() > 1, dl.windows(2).all(|w| w[0] <= w[1]), || {
                    format!("wake order by deadline: {:?}", dl)
                });
                for i in due {
                    self.expired[i] = true;
                }
            }
            POLL_DONE => {
                let fut = self.slots.v[a].fut.as_mut().unwrap();
                let p = super::poll_after_done_panics(fut.as_mut());
                ctx.check("C17", "poll-after-completion-panics", true, p, || "polling a completed timer future did not panic".into());
            }
            _ => unreachable!(),
        }
        self.post(ctx);
    }

    fn fp(&self) -> u64 {
        self.fp
    }

    fn finish(mut self, ctx: &mut Ctx) {
        for i in 0..self.slots.v.len() {
            if self.slots.v[i].live() {
                self.slots.drop_fut(i, ctx, 0);
                self.expired[i] = false;
            }
        }
        self.post(ctx);
        let empty = self.view.queues[0].is_empty() && self.view.prim.head == 0;
        ctx.check("C01", "queue-empty-after-all-futures-dropped", crate::slots::inspect_on(), empty, || "timer heap not empty at the end of the history".into());
        // Safety: nothing borrows the service / the clock any more
        unsafe {
            self.owners.1.reclaim();
            self.owners.0.reclaim();
        }
    }
}

pub enum TimerDriver {
    L(TimerCore<crate::locks::Noop>),
    S(TimerCore<crate::locks::Pl>),
    P(TimerCore<crate::locks::Spin>),
}

macro_rules! each {
    ($self:expr, $c:ident => $e:expr) => {
        match $self {
            TimerDriver::L($c) => $e,
            TimerDriver::S($c) => $e,
            TimerDriver::P($c) => $e,
        }
    };
}

impl crate::engine::Driver for TimerDriver {
    fn name() -> &'static str {
        "timer"
    }
    fn configs(tier: Tier) -> Vec<String> {
        configs(tier)
    }
    fn new(cfg: &str, k: usize, bounded: bool) -> Self {
        match cfg_get(cfg, "lock") {
            Some("local") => TimerDriver::L(Core::new(cfg, k, bounded)),
            Some("spin") => TimerDriver::P(Core::new(cfg, k, bounded)),
            _ => TimerDriver::S(Core::new(cfg, k, bounded)),
        }
    }
    fn enabled(&self, out: &mut Vec<Ev>) {
        each!(self, c => c.enabled(out))
    }
    fn weight(&self, ev: Ev, profile: u8) -> u32 {
        each!(self, c => c.weight(ev, profile))
    }
    fn step(&mut self, ev: Ev, ctx: &mut Ctx) {
        each!(self, c => c.step(ev, ctx))
    }
    fn fp(&self) -> u64 {
        each!(self, c => c.fp())
    }
    fn finish(self, ctx: &mut Ctx) {
        each!(self, c => c.finish(ctx))
    }
    fn ev_name(ev: Ev) -> String {
        ev_name(ev)
    }
    fn scenarios(cfg: &str) -> Vec<Vec<Ev>> {
        scenarios(cfg)
    }
}
