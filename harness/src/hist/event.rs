//! ManualResetEvent histories: C14 (latching), riders C01 / C17 / C18 / C20.

use super::{fl, Core};
use crate::engine::{Ctx, Ev, Tier};
use crate::locks::{cfg_num, LockName};
use crate::slots::{call, inspect_and_check, Serial, Shape, Slots, St, View};
use crate::util::Fp;
use crate::wakers;
use futures_intrusive::sync::{GenericManualResetEvent, GenericWaitForEventFuture};
use lock_api::RawMutex;
use std::task::Poll;

crate::impl_node_access!(['a, M: RawMutex] GenericWaitForEventFuture<'a, M>);

pub const CREATE: u8 = 0;
pub const POLL: u8 = 1;
pub const DROP_FUT: u8 = 2;
pub const SET: u8 = 3;
pub const RESET: u8 = 4;
pub const POLL_DONE: u8 = 5;

pub fn ev_name(e: Ev) -> String {
    match e.k {
        CREATE => format!("Wait({})", e.a),
        POLL => format!("Poll({},{})", e.a, fl(e.b)),
        DROP_FUT => format!("DropFut({})", e.a),
        SET => "Set()".into(),
        RESET => "Reset()".into(),
        POLL_DONE => format!("PollAfterCompletion({})", e.a),
        255 => "EndOfHistoryAudit()".into(),
        _ => format!("?({},{},{})", e.k, e.a, e.b),
    }
}

pub fn configs(tier: Tier) -> Vec<String> {
    let mut v = vec![];
    for lock in ["local", "sync", "spin"] {
        if tier == Tier::Quick && lock == "spin" {
            continue;
        }
        for init in 0..2 {
            v.push(format!("lock={},init={}", lock, init));
        }
    }
    v
}

pub fn scenarios(_cfg: &str) -> Vec<Vec<Ev>> {
    let e = Ev::new;
    let mut v = base_scenarios();
    // deep queues: n waiters, interior ones cancelled, one set() must reach everybody who is left
    for (n, cancel, newest_first) in crate::hist::deep_queue_patterns(&[5, 6, 8]) {
        let mut s = vec![e(RESET, 0, 0)];
        for i in 0..n {
            s.push(e(CREATE, i, 0));
            s.push(e(POLL, i, (i % 2) as u8));
        }
        for c in &cancel {
            s.push(e(DROP_FUT, *c, 0));
        }
        s.push(e(SET, 0, 0));
        s.push(e(RESET, 0, 0));
        let mut rest = crate::hist::deep_rest(n, &cancel);
        if newest_first {
            rest.reverse();
        }
        for i in rest {
            s.push(e(POLL, i, 1));
        }
        v.push(s);
    }
    v
}

fn base_scenarios() -> Vec<Vec<Ev>> {
    let e = Ev::new;
    vec![
        // set(); reset() before the re-poll, after a waker swap
        vec![e(RESET, 0, 0), e(CREATE, 0, 0), e(POLL, 0, 0), e(CREATE, 1, 0), e(POLL, 1, 0), e(POLL, 0, 1), e(SET, 0, 0), e(RESET, 0, 0), e(CREATE, 2, 0), e(POLL, 2, 0), e(POLL, 1, 1), e(POLL, 0, 0), e(POLL, 2, 1)],
        // cancel from the middle, then set
        vec![e(RESET, 0, 0), e(CREATE, 0, 0), e(POLL, 0, 0), e(CREATE, 1, 0), e(POLL, 1, 0), e(CREATE, 2, 0), e(POLL, 2, 0), e(DROP_FUT, 1, 0), e(SET, 0, 0), e(POLL, 2, 0), e(POLL, 0, 0)],
    ]
}

type Fut<M> = GenericWaitForEventFuture<'static, M>;

pub struct EventCore<M: RawMutex + 'static> {
    owner: crate::util::Leaked<GenericManualResetEvent<M>>,
    is_set: bool,
    slots: Slots<Fut<M>>,
    serial: Serial,
    view: View,
    fp: u64,
}

impl<M: RawMutex + LockName + 'static> EventCore<M> {
    fn post(&mut self, ctx: &mut Ctx) {
        let mut regs = vec![];
        self.slots.regs(&mut regs);
        let event: &'static GenericManualResetEvent<M> = self.owner.get();
        let slots = &self.slots;
        self.view = inspect_and_check(ctx, Shape::List, regs, &mut |v| event.verif_inspect(v), &mut |r| slots.node_info(r.slot as usize), &|_, i| i.state == 1);
        if let Some(s) = call(ctx, "is_set", 0, 0, || event.is_set()) {
            let m = self.is_set;
            ctx.check("C14", "is_set-reflects-last-set-or-reset", true, s == m, || format!("is_set()={} model={}", s, m));
        }
        // a latched waiter has been woken through its latest waker and not polled since
        for (i, s) in self.slots.v.iter().enumerate() {
            if s.pending() {
                let latched = s.arg == 1;
                ctx.check("C14", "latched-waiter-holds-a-wake-up", latched, s.woken(), || {
                    format!("slot {} was pending when set() ran but has not been woken through the waker of its latest poll", i)
                });
                // the event is set => every pending waiter is latched (it started waiting before the set)
                let set = self.is_set;
                ctx.check("C14", "no-unlatched-waiter-while-set", set, latched, || format!("slot {} is pending and unlatched although the event is set", i));
            }
        }
        self.slots.check_terminated(ctx);
        let mut f = Fp::new();
        f.add(self.is_set as u64);
        self.view.fp_queues(&mut f);
        self.slots.fp_slots(&mut f, &self.view);
        self.fp = f.get();
    }
}

impl<M: RawMutex + LockName + 'static> Core for EventCore<M> {
    fn new(cfg: &str, k: usize, _bounded: bool) -> Self {
        let init = cfg_num(cfg, "init", 0) == 1;
        let owner = crate::util::Leaked::new(GenericManualResetEvent::new(init));
        let event: &'static GenericManualResetEvent<M> = owner.get();
        let _ = event;
        let mut c = EventCore {
            owner,
            is_set: init,
            slots: Slots::new(k, 0),
            serial: Serial(0),
            view: View::default(),
            fp: 0,
        };
        let mut ctx = Ctx::new();
        ctx.track_distinct = false;
        c.post(&mut ctx);
        c
    }

    fn enabled(&self, out: &mut Vec<Ev>) {
        let mut created = false;
        for (i, s) in self.slots.v.iter().enumerate() {
            match &s.fut {
                None => {
                    if !created && !self.serial.exhausted() {
                        out.push(Ev::new(CREATE, i as u8, 0));
                        created = true;
                    }
                }
                Some(_) => {
                    if s.st != St::Done {
                        out.push(Ev::new(POLL, i as u8, 0));
                        out.push(Ev::new(POLL, i as u8, 1));
                    } else {
                        out.push(Ev::new(POLL_DONE, i as u8, 0));
                    }
                    out.push(Ev::new(DROP_FUT, i as u8, 0));
                }
            }
        }
        out.push(Ev::new(SET, 0, 0));
        out.push(Ev::new(RESET, 0, 0));
    }

    fn weight(&self, ev: Ev, profile: u8) -> u32 {
        match (ev.k, profile) {
            (POLL_DONE, _) => 1,
            (DROP_FUT, 1) => 12,
            (POLL, 2) if self.slots.v[ev.a as usize].last_flavour != ev.b => 12,
            (POLL, _) => 6,
            (SET, 3) | (RESET, 3) => 8,
            _ => 4,
        }
    }

    fn step(&mut self, ev: Ev, ctx: &mut Ctx) {
        let a = ev.a as usize;
        let event: &'static GenericManualResetEvent<M> = self.owner.get();
        match ev.k {
            CREATE => self.slots.create(a, &mut self.serial, ctx, 0, || event.wait()),
            POLL => {
                let latched = self.slots.v[a].arg == 1;
                let expect_ready = latched || self.is_set;
                if let Some(p) = self.slots.poll(a, ev.b, ctx, 0, 0) {
                    let ready = matches!(p, Poll::Ready(()));
                    let set = self.is_set;
                    ctx.check("C14", "wait-completes-iff-set-while-waiting", true, ready == expect_ready, || {
                        format!("poll returned ready={} but latch={} is_set={}", ready, latched, set)
                    });
                }
            }
            DROP_FUT => {
                let info = self.view.info_of(0, a as u8);
                let pos = self.view.queued(0, a as u8);
                ctx.count(
                    &format!(
                        "drop[state={},pos={},swapped={}]",
                        info.map_or(9, |i| i.state),
                        match pos {
                            None => "unqueued",
                            Some((_, p)) if p == 0 && self.view.queues[0].len() == 1 => "only",
                            Some((_, 0)) => "front",
                            Some((_, p)) if p + 1 == self.view.queues[0].len() => "back",
                            _ => "middle",
                        },
                        (self.slots.v[a].flavours_used == 3) as u8
                    ),
                    1,
                );
                self.slots.drop_fut(a, ctx, 0)
            }
            SET => {
                call(ctx, "set", 0, 0, || event.set());
                self.is_set = true;
                for s in self.slots.v.iter_mut() {
                    if s.pending() {
                        s.arg = 1;
                    }
                }
            }
            RESET => {
                let mark = wakers::log_mark();
                call(ctx, "reset", 0, 0, || event.reset());
                let woke = wakers::log_mark() - mark;
                ctx.check("C14", "reset-wakes-nobody", self.slots.v.iter().any(|s| s.pending()), woke == 0, || format!("reset() woke {} waker(s)", woke));
                self.is_set = false;
            }
            POLL_DONE => {
                let fut = self.slots.v[a].fut.as_mut().unwrap();
                let p = super::poll_after_done_panics(fut.as_mut());
                ctx.check("C17", "poll-after-completion-panics", true, p, || "polling a completed wait future did not panic".into());
            }
            _ => unreachable!(),
        }
        self.post(ctx);
    }

    fn fp(&self) -> u64 {
        self.fp
    }

    fn finish(mut self, ctx: &mut Ctx) {
        for i in 0..self.slots.v.len() {
            if self.slots.v[i].live() {
                self.slots.drop_fut(i, ctx, 0);
            }
        }
        self.post(ctx);
        let empty = self.view.queues[0].is_empty() && self.view.prim.head == 0 && self.view.prim.tail == 0;
        ctx.check("C01", "queue-empty-after-all-futures-dropped", crate::slots::inspect_on(), empty, || "wait queue not empty at the end of the history".into());
        // Safety: no future borrows the event any more
        unsafe { self.owner.reclaim() };
    }
}

crate::lock_dispatch!(EventDriver, EventCore, "event", crate::hist::event::configs, crate::hist::event::ev_name, crate::hist::event::scenarios);
