//! Single-thread history engine (DESIGN §3.2): drivers, context, runners
//! (random / novelty / scenario, breadth-first fixpoint exploration), witness
//! files, shrinking, replay and summaries.

use crate::util::{hash_str, mix, Json, Rng};
use std::collections::{BTreeMap, HashMap, HashSet, VecDeque};
use std::fmt::Write as _;
use std::io::Write as _;

/// Upper bound for the size of the hash sets kept for evidence (memory).
pub const SET_CAP: usize = 3_000_000;

/// One event of a history. `k` is the driver specific kind, `a`/`b` small
/// arguments (slot, flavour, amount …).
#[derive(Clone, Copy, Debug, PartialEq, Eq, Hash)]
pub struct Ev {
    pub k: u8,
    pub a: u8,
    pub b: u8,
}

impl Ev {
    pub const fn new(k: u8, a: u8, b: u8) -> Ev {
        Ev { k, a, b }
    }
    pub fn code(&self) -> u64 {
        ((self.k as u64) << 16) | ((self.a as u64) << 8) | self.b as u64
    }
}

/// A failed predicate.
#[derive(Clone, Debug)]
pub struct Fail {
    pub prop: &'static str,
    pub pred: &'static str,
    pub detail: String,
}

#[derive(Default)]
pub struct PredStat {
    pub evals: u64,
    pub nonvac: u64,
}

#[derive(Default)]
pub struct PropStat {
    pub evals: u64,
    pub nonvac: u64,
    pub distinct: HashSet<u64>,
    pub by_pred: BTreeMap<&'static str, PredStat>,
}

/// Everything the oracles report into.
pub struct Ctx {
    pub props: BTreeMap<&'static str, PropStat>,
    /// failures raised by the current event
    pub fails: Vec<Fail>,
    /// fingerprint of the joint state before the current event
    pub cur_fp: u64,
    pub cur_ev: Ev,
    pub events: u64,
    pub episodes: u64,
    pub kind_counts: [u64; 256],
    pub states: HashSet<u64>,
    pub transitions: HashSet<u64>,
    /// free-form counters (drop matrix, stray wakes, …)
    pub counters: BTreeMap<String, u64>,
    pub max_queue: u64,
    /// number of new abstract states discovered in each quarter of the run
    pub new_states_by_quarter: [u64; 4],
    pub track_distinct: bool,
    /// named sets of hashes (e.g. distinct heap shapes); sizes are reported
    pub aux_sets: BTreeMap<&'static str, HashSet<u64>>,
}

impl Ctx {
    pub fn new() -> Ctx {
        Ctx {
            props: BTreeMap::new(),
            fails: vec![],
            cur_fp: 0,
            cur_ev: Ev::new(0, 0, 0),
            events: 0,
            episodes: 0,
            kind_counts: [0; 256],
            states: HashSet::new(),
            transitions: HashSet::new(),
            counters: BTreeMap::new(),
            max_queue: 0,
            new_states_by_quarter: [0; 4],
            track_distinct: !cfg!(miri),
            aux_sets: BTreeMap::new(),
        }
    }

    /// Evaluates one predicate instance. `nonvac` = the antecedent held (the
    /// evaluation could have failed), `ok` = the consequent held.
    #[inline]
    pub fn check(
        &mut self,
        prop: &'static str,
        pred: &'static str,
        nonvac: bool,
        ok: bool,
        detail: impl FnOnce() -> String,
    ) {
        let ps = self.props.entry(prop).or_default();
        ps.evals += 1;
        let st = ps.by_pred.entry(pred).or_default();
        st.evals += 1;
        if nonvac {
            ps.nonvac += 1;
            st.nonvac += 1;
            if self.track_distinct && ps.distinct.len() < SET_CAP {
                let key = mix(mix(self.cur_fp, self.cur_ev.code()), hash_str(pred));
                ps.distinct.insert(key);
            }
            if !ok {
                self.fails.push(Fail {
                    prop,
                    pred,
                    detail: detail(),
                });
            }
        }
    }

    pub fn fail(&mut self, prop: &'static str, pred: &'static str, detail: String) {
        self.check(prop, pred, true, false, || detail);
    }

    pub fn count(&mut self, name: &str, n: u64) {
        *self.counters.entry(name.to_string()).or_insert(0) += n;
    }
}

#[derive(Clone, Copy, PartialEq, Eq, Debug)]
pub enum Tier {
    Quick,
    Thorough,
}

/// A single-thread history driver for one primitive family.
pub trait Driver: Sized {
    fn name() -> &'static str;
    /// Configuration strings (flavour, fairness, capacities …)
    fn configs(tier: Tier) -> Vec<String>;
    /// `k` = number of future slots, `bounded` = restrict the event alphabet
    /// so that the abstract joint state space is finite (fixpoint runs).
    fn new(cfg: &str, k: usize, bounded: bool) -> Self;
    /// All events that respect the documented contract in the current state.
    fn enabled(&self, out: &mut Vec<Ev>);
    /// Relative weight of an event under a bias profile
    /// (0 uniform, 1 cancel-heavy, 2 waker-swap-heavy, 3 steal-heavy).
    fn weight(&self, _ev: Ev, _profile: u8) -> u32 {
        4
    }
    /// Executes the event against the real primitive and evaluates every
    /// oracle; failures are pushed into `ctx.fails`.
    fn step(&mut self, ev: Ev, ctx: &mut Ctx);
    /// Fingerprint of the abstract joint state after the last step.
    fn fp(&self) -> u64;
    /// The primitive reached a state in which nothing interesting can happen.
    fn terminal(&self) -> bool {
        false
    }
    /// Drops everything and runs the end-of-episode audits.
    fn finish(self, ctx: &mut Ctx);
    fn ev_name(ev: Ev) -> String;
    /// Hand written hostile prefixes (DESIGN §3.2 generator 3).
    fn scenarios(_cfg: &str) -> Vec<Vec<Ev>> {
        vec![]
    }
}

pub struct RunOpts {
    pub mode: String,
    pub prop: String,
    pub seed: u64,
    pub events: u64,
    pub k: usize,
    pub tier: Tier,
    pub out: Option<String>,
    pub replay_dir: String,
    pub max_states: usize,
    pub max_depth: usize,
    pub cfg_filter: Option<String>,
    pub shard: usize,
    pub shards: usize,
    pub no_shrink: bool,
}

pub struct Witness {
    pub driver: String,
    pub cfg: String,
    pub k: usize,
    pub bounded: bool,
    pub fail: Fail,
    pub trace: Vec<Ev>,
    pub names: Vec<String>,
    pub path: String,
    pub shrunk_from: usize,
}

pub struct Outcome {
    pub ctx: Ctx,
    pub witnesses: Vec<Witness>,
    pub other_fails: BTreeMap<String, (u64, String)>,
    pub samples: Vec<String>,
    pub bfs_states: u64,
    pub bfs_exhausted: bool,
    pub bfs_depth: u64,
    pub bfs_configs: u64,
    pub bfs_exhausted_configs: u64,
}

fn trace_to_string<D: Driver>(cfg: &str, t: &[Ev]) -> String {
    let mut s = format!("[{}] ", cfg);
    for (i, e) in t.iter().enumerate() {
        if i > 0 {
            s.push_str("; ");
        }
        s.push_str(&D::ev_name(*e));
    }
    s
}

/// Re-executes an explicit event list. Returns the failures of the last
/// executed event (empty = history passed), or None if an event of the list
/// was not enabled when its turn came (the list is not a valid history).
pub fn run_trace<D: Driver>(
    cfg: &str,
    k: usize,
    bounded: bool,
    trace: &[Ev],
    ctx: &mut Ctx,
    audit: bool,
) -> Option<Vec<Fail>> {
    let mut d = D::new(cfg, k, bounded);
    let mut en = vec![];
    for ev in trace {
        en.clear();
        d.enabled(&mut en);
        if !en.contains(ev) {
            d.finish(&mut Ctx::new());
            return None;
        }
        ctx.cur_fp = d.fp();
        ctx.cur_ev = *ev;
        ctx.fails.clear();
        ctx.events += 1;
        d.step(*ev, ctx);
        if !ctx.fails.is_empty() {
            let f = std::mem::take(&mut ctx.fails);
            std::mem::forget(d);
            return Some(f);
        }
    }
    if audit {
        ctx.fails.clear();
        d.finish(ctx);
        Some(std::mem::take(&mut ctx.fails))
    } else {
        d.finish(&mut Ctx::new());
        Some(vec![])
    }
}

/// Greedy shrink: drop one event at a time while the same predicate of the
/// same property still fails on the last event.
fn shrink<D: Driver>(cfg: &str, k: usize, bounded: bool, trace: &[Ev], fail: &Fail) -> Vec<Ev> {
    let mut cur: Vec<Ev> = trace.to_vec();
    let mut budget = 4000usize;
    let mut progress = true;
    while progress && budget > 0 {
        progress = false;
        let mut i = cur.len().saturating_sub(1);
        while i > 0 && budget > 0 {
            i -= 1;
            budget -= 1;
            let mut cand = cur.clone();
            cand.remove(i);
            let mut c = Ctx::new();
            c.track_distinct = false;
            if let Some(fs) = run_trace::<D>(cfg, k, bounded, &cand, &mut c, false) {
                if c.events as usize == cand.len()
                    && fs.iter().any(|f| f.prop == fail.prop && f.pred == fail.pred)
                {
                    cur = cand;
                    progress = true;
                }
            }
        }
    }
    cur
}

fn write_witness(w: &Witness) {
    let mut s = String::new();
    let _ = writeln!(s, "fiv-witness 1");
    let _ = writeln!(s, "driver {}", w.driver);
    let _ = writeln!(s, "cfg {}", w.cfg);
    let _ = writeln!(s, "k {}", w.k);
    let _ = writeln!(s, "bounded {}", w.bounded as u8);
    let _ = writeln!(s, "property {}", w.fail.prop);
    let _ = writeln!(s, "predicate {}", w.fail.pred);
    let _ = writeln!(s, "detail {}", w.fail.detail.replace('\n', " "));
    let _ = writeln!(s, "shrunk_from {}", w.shrunk_from);
    for (e, n) in w.trace.iter().zip(w.names.iter()) {
        let _ = writeln!(s, "ev {} {} {} # {}", e.k, e.a, e.b, n);
    }
    if let Some(dir) = std::path::Path::new(&w.path).parent() {
        let _ = std::fs::create_dir_all(dir);
    }
    if let Ok(mut f) = std::fs::File::create(&w.path) {
        let _ = f.write_all(s.as_bytes());
    }
}

pub struct WitnessFile {
    pub driver: String,
    pub cfg: String,
    pub k: usize,
    pub bounded: bool,
    pub prop: String,
    pub pred: String,
    pub trace: Vec<Ev>,
}

pub fn read_witness(path: &str) -> Result<WitnessFile, String> {
    let txt = std::fs::read_to_string(path).map_err(|e| format!("{}: {}", path, e))?;
    let mut w = WitnessFile {
        driver: String::new(),
        cfg: String::new(),
        k: 3,
        bounded: false,
        prop: String::new(),
        pred: String::new(),
        trace: vec![],
    };
    for line in txt.lines() {
        let (key, rest) = match line.split_once(' ') {
            Some(x) => x,
            None => (line, ""),
        };
        match key {
            "driver" => w.driver = rest.to_string(),
            "cfg" => w.cfg = rest.to_string(),
            "k" => w.k = rest.trim().parse().map_err(|_| "bad k")?,
            "bounded" => w.bounded = rest.trim() == "1",
            "property" => w.prop = rest.trim().to_string(),
            "predicate" => w.pred = rest.trim().to_string(),
            "ev" => {
                let body = rest.split('#').next().unwrap_or("");
                let n: Vec<u8> = body
                    .split_whitespace()
                    .filter_map(|x| x.parse().ok())
                    .collect();
                if n.len() != 3 {
                    return Err(format!("bad ev line: {}", line));
                }
                w.trace.push(Ev::new(n[0], n[1], n[2]));
            }
            _ => {}
        }
    }
    if w.driver.is_empty() {
        return Err("not a witness file".into());
    }
    Ok(w)
}

struct Recorder<'a> {
    opts: &'a RunOpts,
    witnesses: Vec<Witness>,
    other: BTreeMap<String, (u64, String)>,
    seen_target: HashSet<(String, String)>,
}

impl<'a> Recorder<'a> {
    /// Returns true if the run should stop (a violation of the target
    /// property was recorded).
    fn record<D: Driver>(
        &mut self,
        cfg: &str,
        k: usize,
        bounded: bool,
        trace: &[Ev],
        fails: &[Fail],
        allow_shrink: bool,
    ) -> bool {
        let mut stop = false;
        // a violation of the target property has priority over the others
        for f in fails {
            let is_target = self.opts.prop == f.prop || self.opts.prop == "all";
            if is_target {
                let key = (f.prop.to_string(), f.pred.to_string());
                if self.seen_target.contains(&key) && self.witnesses.len() >= 3 {
                    stop = true;
                    continue;
                }
                self.seen_target.insert(key);
                // The crate may be broken in a way that kills the process later (or while the history is
                // replayed for shrinking): the unshrunk witness is on disk and announced before anything else
                // happens, so that the verdict survives a crash of this shard.
                {
                    let mut x = hash_str(cfg);
                    for e in trace {
                        x = mix(x, e.code());
                    }
                    let raw_path = format!("{}/{}-{}-{:012x}-raw.witness", self.opts.replay_dir, f.prop, D::name(), mix(x, hash_str(f.pred)) & 0xffff_ffff_ffff);
                    let raw = Witness {
                        driver: D::name().to_string(),
                        cfg: cfg.to_string(),
                        k,
                        bounded,
                        fail: f.clone(),
                        shrunk_from: trace.len(),
                        trace: trace.to_vec(),
                        names: trace.iter().map(|e| D::ev_name(*e)).collect(),
                        path: raw_path.clone(),
                    };
                    write_witness(&raw);
                    let last = trace.last().map(|e| D::ev_name(*e)).unwrap_or_default();
                    let last = last.split('(').next().unwrap_or("?").to_string();
                    println!("EARLY-VIOLATION property={} replay={} sig=hist:{}:{}:last={}:{}", f.prop, raw_path, D::name(), f.pred, last, cfg);
                    use std::io::Write;
                    let _ = std::io::stdout().flush();
                }
                // shrinking replays the history once per removed event: only worth it for short ones
                let shrunk = if !allow_shrink || self.opts.no_shrink || cfg!(miri) || trace.len() > 3000 {
                    trace.to_vec()
                } else {
                    shrink::<D>(cfg, k, bounded, trace, f)
                };
                let names = shrunk.iter().map(|e| D::ev_name(*e)).collect();
                let h = {
                    let mut x = hash_str(cfg);
                    for e in &shrunk {
                        x = mix(x, e.code());
                    }
                    mix(x, hash_str(f.pred))
                };
                let path = format!(
                    "{}/{}-{}-{:012x}.witness",
                    self.opts.replay_dir,
                    f.prop,
                    D::name(),
                    h & 0xffff_ffff_ffff
                );
                let w = Witness {
                    driver: D::name().to_string(),
                    cfg: cfg.to_string(),
                    k,
                    bounded,
                    fail: f.clone(),
                    shrunk_from: trace.len(),
                    trace: shrunk,
                    names,
                    path,
                };
                write_witness(&w);
                self.witnesses.push(w);
                stop = self.opts.prop != "all";
            } else {
                let e = self
                    .other
                    .entry(format!("{}/{}", f.prop, f.pred))
                    .or_insert((0, String::new()));
                e.0 += 1;
                if e.1.is_empty() {
                    e.1 = format!("{} :: {}", f.detail, trace_to_string::<D>(cfg, trace));
                    e.1.truncate(600);
                }
            }
        }
        stop
    }
}

fn pick_event<D: Driver>(
    d: &D,
    en: &[Ev],
    rng: &mut Rng,
    profile: u8,
    tried: &HashSet<u64>,
    fp: u64,
    novelty: bool,
) -> Ev {
    if novelty && rng.chance(1, 2) {
        // prefer an event kind not yet tried from this abstract state
        let fresh: Vec<Ev> = en
            .iter()
            .copied()
            .filter(|e| !tried.contains(&mix(fp, e.code())))
            .collect();
        if !fresh.is_empty() {
            return fresh[rng.below(fresh.len())];
        }
    }
    let mut total = 0u64;
    for e in en {
        total += d.weight(*e, profile) as u64;
    }
    if total == 0 {
        return en[rng.below(en.len())];
    }
    let mut x = rng.next() % total;
    for e in en {
        let w = d.weight(*e, profile) as u64;
        if x < w {
            return *e;
        }
        x -= w;
    }
    en[en.len() - 1]
}

/// Random / novelty / scenario histories, in episodes.
pub fn run_random<D: Driver>(opts: &RunOpts) -> Outcome {
    let mut ctx = Ctx::new();
    let mut rec = Recorder {
        opts,
        witnesses: vec![],
        other: BTreeMap::new(),
        seen_target: HashSet::new(),
    };
    let mut rng = Rng::new(opts.seed.wrapping_mul(0x1000_0000_01B3) ^ hash_str(D::name()));
    let mut cfgs = D::configs(opts.tier);
    if let Some(f) = &opts.cfg_filter {
        cfgs.retain(|c| c.contains(f.as_str()));
    }
    assert!(!cfgs.is_empty(), "no configuration selected");
    let mut samples = vec![];
    let mut en: Vec<Ev> = vec![];
    let mut stop = false;
    let mut scenario_queue: VecDeque<(String, Vec<Ev>)> = VecDeque::new();
    // hand written prefixes run on every 4th shard of a leg (they are deterministic: repeating them on
    // every shard adds nothing) and always in scenario mode
    if opts.mode == "scenario" || (opts.mode == "random" && opts.shard % 4 == 0) {
        for (ci, c) in cfgs.iter().enumerate() {
            // scenario legs split the configurations over their shards: a crate that is broken badly enough to
            // kill the process on one configuration does not take the verdicts on the others with it
            if opts.mode == "scenario" && ci % opts.shards.max(1) != opts.shard {
                continue;
            }
            for s in D::scenarios(c) {
                scenario_queue.push_back((c.clone(), s));
            }
        }
    }
    let quarter = (opts.events / 4).max(1);
    while ctx.events < opts.events && !stop {
        let (cfg, prefix) = match scenario_queue.pop_front() {
            Some(x) => x,
            None => {
                if opts.mode == "scenario" {
                    break;
                }
                (cfgs[rng.below(cfgs.len())].clone(), vec![])
            }
        };
        let profile = (rng.next() % 4) as u8;
        let novelty = rng.chance(1, 2);
        // hand written prefixes address up to 8 slots (deep queues): they get the slots they need
        let k = if prefix.is_empty() || cfg!(miri) { opts.k } else { opts.k.max(8) };
        let mut d = D::new(&cfg, k, false);
        let mut trace: Vec<Ev> = vec![];
        let ep_len = if cfg!(miri) {
            20 + rng.below(60)
        } else {
            let long = rng.chance(1, 8);
            20 + rng.below(if long { 2000 } else { 300 })
        };
        let ep_len = ep_len.max(prefix.len() + 40);
        let mut after_terminal = 0;
        ctx.episodes += 1;
        let mut failed = false;
        let mut tainted = 0u32;
        let mut pi = 0;
        loop {
            if trace.len() >= ep_len || ctx.events >= opts.events {
                break;
            }
            if d.terminal() {
                after_terminal += 1;
                if after_terminal > 6 {
                    break;
                }
            }
            en.clear();
            d.enabled(&mut en);
            if en.is_empty() {
                break;
            }
            let fp = d.fp();
            // scenario prefix: events that are not enabled here (e.g. slots beyond k) are skipped
            while pi < prefix.len() && !en.contains(&prefix[pi]) {
                pi += 1;
            }
            let ev = if pi < prefix.len() {
                pi += 1;
                prefix[pi - 1]
            } else {
                pick_event(&d, &en, &mut rng, profile, &ctx.transitions, fp, novelty)
            };
            ctx.cur_fp = fp;
            ctx.cur_ev = ev;
            ctx.fails.clear();
            ctx.events += 1;
            ctx.kind_counts[ev.k as usize] += 1;
            d.step(ev, &mut ctx);
            trace.push(ev);
            if !ctx.fails.is_empty() {
                let fs = std::mem::take(&mut ctx.fails);
                stop = rec.record::<D>(&cfg, k, false, &trace, &fs, true);
                let target_hit = fs.iter().any(|f| opts.prop == f.prop || opts.prop == "all");
                // a failure of another property does not end the history (it would
                // mask a later failure of the property under check), unless the
                // state can no longer be trusted to be memory safe
                // Failures of the structural / protocol riders (C01, C17, C18, C20) do not involve a reference
                // model: the history may go on. A failed model-based predicate of another property means the
                // reference model and the implementation have diverged (model drift): whatever the models say
                // from here on is not evidence, the history ends.
                let is_target = |f: &Fail| opts.prop == f.prop || opts.prop == "all";
                // (a MODEL note alone - hooked state differs from the reference model while every API-visible
                // result still agreed - does not end the history: what the API does next is still evidence)
                // Only the mpmc reference model *infers* unobservable state (which parked sender was accepted,
                // what the buffer holds); the other drivers' models are plain facts about what the harness
                // itself did and saw (guards held, permit ledger, latches, deadlines, publication log), which
                // stay true after a failed predicate: there, another property's failure never ends the history.
                // (wake-up predicates that read "value available" / "closed" from the channel through the hook are
                // observations, not model verdicts: they do not end the history either)
                const DRIFT_FREE: [&str; 2] = ["value-available-and-receivers-pending-implies-one-woken", "every-pending-receiver-woken-after-close"];
                let drift = D::name().starts_with("mpmc")
                    && fs.iter().any(|f| !is_target(f) && !["C01", "C17", "C18", "C20", "MODEL"].contains(&f.prop) && !(crate::slots::inspect_on() && DRIFT_FREE.contains(&f.pred)));
                let fatal = drift || fs.iter().any(|f| f.pred == "no-panic-on-contract-respecting-history" || (f.pred == "queue-walk-sound" && f.detail.contains("dangling")));
                tainted += 1;
                if target_hit || fatal || stop || tainted > 40 {
                    failed = true;
                    break;
                }
            }
            let nfp = d.fp();
            if ctx.states.len() < SET_CAP && ctx.states.insert(nfp) {
                let q = ((ctx.events / quarter) as usize).min(3);
                ctx.new_states_by_quarter[q] += 1;
            }
            if ctx.transitions.len() < SET_CAP {
                ctx.transitions.insert(mix(fp, ev.code()));
            }
        }
        if failed || tainted > 0 {
            // the instance may be corrupt: do not run its destructors
            std::mem::forget(d);
            ctx.count("abandoned_histories", 1);
            continue;
        }
        ctx.fails.clear();
        ctx.cur_fp = d.fp();
        ctx.cur_ev = Ev::new(255, 0, 0);
        d.finish(&mut ctx);
        if !ctx.fails.is_empty() {
            let fs = std::mem::take(&mut ctx.fails);
            stop = rec.record::<D>(&cfg, k, false, &trace, &fs, false);
        }
        if samples.len() < 3 && trace.len() >= 6 {
            let mut t = trace.clone();
            t.truncate(40);
            samples.push(trace_to_string::<D>(&cfg, &t));
        }
    }
    Outcome {
        ctx,
        witnesses: rec.witnesses,
        other_fails: rec.other,
        samples,
        bfs_states: 0,
        bfs_exhausted: false,
        bfs_depth: 0,
        bfs_configs: 0,
        bfs_exhausted_configs: 0,
    }
}

/// Breadth-first exploration of the abstract joint state space by replaying
/// real histories: every newly seen fingerprint is expanded by every enabled
/// event. Reaching an empty frontier means the (bounded) alphabet produced
/// no new abstract state: a fixpoint.
pub fn run_bfs<D: Driver>(opts: &RunOpts) -> Outcome {
    let mut ctx = Ctx::new();
    let mut rec = Recorder {
        opts,
        witnesses: vec![],
        other: BTreeMap::new(),
        seen_target: HashSet::new(),
    };
    let mut cfgs = D::configs(opts.tier);
    if let Some(f) = &opts.cfg_filter {
        cfgs.retain(|c| c.contains(f.as_str()));
    }
    // configurations marked `nobfs=1` (huge buffers, huge amounts) are for random / scenario histories only
    cfgs.retain(|c| !c.contains("nobfs=1"));
    let mut samples = vec![];
    let mut total_states = 0u64;
    let mut all_exhausted = true;
    let mut max_depth = 0u64;
    let mut n_cfg = 0u64;
    let mut n_exh = 0u64;
    let mut stop = false;
    for (ci, cfg) in cfgs.iter().enumerate() {
        if ci % opts.shards != opts.shard || stop {
            continue;
        }
        n_cfg += 1;
        let k = opts.k;
        // state id -> (parent id, event, depth)
        let mut parent: Vec<(u32, Ev, u32)> = vec![];
        let mut index: HashMap<u64, u32> = HashMap::new();
        let mut frontier: VecDeque<u32> = VecDeque::new();
        {
            let d = D::new(cfg, k, true);
            let fp = d.fp();
            d.finish(&mut Ctx::new());
            index.insert(fp, 0);
            parent.push((u32::MAX, Ev::new(0, 0, 0), 0));
            frontier.push_back(0);
            ctx.states.insert(fp);
        }
        let mut exhausted = true;
        let mut en: Vec<Ev> = vec![];
        let mut path: Vec<Ev> = vec![];
        'outer: while let Some(sid) = frontier.pop_front() {
            if ctx.events >= opts.events {
                exhausted = false;
                break;
            }
            let depth = parent[sid as usize].2;
            if depth as usize >= opts.max_depth {
                exhausted = false;
                continue;
            }
            // reconstruct the path to this state
            path.clear();
            let mut cur = sid;
            while parent[cur as usize].0 != u32::MAX {
                path.push(parent[cur as usize].1);
                cur = parent[cur as usize].0;
            }
            path.reverse();
            // enabled events in this state
            let mut d = D::new(cfg, k, true);
            let mut okp = true;
            for e in &path {
                ctx.cur_fp = d.fp();
                ctx.cur_ev = *e;
                ctx.fails.clear();
                d.step(*e, &mut ctx);
                ctx.events += 1;
                if !ctx.fails.is_empty() {
                    okp = false;
                    break;
                }
            }
            if !okp {
                // cannot happen on a deterministic system unless the
                // fingerprint is too coarse; report as harness problem
                ctx.count("bfs_replay_divergence", 1);
                std::mem::forget(d);
                ctx.count("abandoned_histories", 1);
                ctx.fails.clear();
                continue;
            }
            en.clear();
            d.enabled(&mut en);
            let fp_here = d.fp();
            let evs = en.clone();
            let mut first = true;
            for ev in evs {
                let mut dd = if first {
                    first = false;
                    // reuse the instance that is already in this state
                    std::mem::replace(&mut d, D::new(cfg, k, true))
                } else {
                    let mut x = D::new(cfg, k, true);
                    let mut c2 = Ctx::new();
                    c2.track_distinct = false;
                    for e in &path {
                        c2.cur_fp = 0;
                        c2.cur_ev = *e;
                        x.step(*e, &mut c2);
                        ctx.events += 1;
                    }
                    x
                };
                ctx.cur_fp = fp_here;
                ctx.cur_ev = ev;
                ctx.fails.clear();
                ctx.events += 1;
                dd.step(ev, &mut ctx);
                ctx.kind_counts[ev.k as usize] += 1;
                if !ctx.fails.is_empty() {
                    let fs = std::mem::take(&mut ctx.fails);
                    let mut t = path.clone();
                    t.push(ev);
                    stop = rec.record::<D>(cfg, k, true, &t, &fs, true);
                    std::mem::forget(dd);
                    ctx.count("abandoned_histories", 1);
                    if stop {
                        exhausted = false;
                        break 'outer;
                    }
                    continue;
                }
                let nfp = dd.fp();
                ctx.transitions.insert(mix(fp_here, ev.code()));
                if !index.contains_key(&nfp) {
                    if index.len() >= opts.max_states {
                        exhausted = false;
                    } else {
                        let id = parent.len() as u32;
                        index.insert(nfp, id);
                        parent.push((sid, ev, depth + 1));
                        frontier.push_back(id);
                        ctx.states.insert(nfp);
                        max_depth = max_depth.max(depth as u64 + 1);
                        if samples.len() < 3 && depth >= 5 {
                            let mut t = path.clone();
                            t.push(ev);
                            samples.push(trace_to_string::<D>(cfg, &t));
                        }
                    }
                }
                // end-of-history audit on every explored edge
                ctx.cur_fp = nfp;
                ctx.cur_ev = Ev::new(255, 0, 0);
                dd.finish(&mut ctx);
                if !ctx.fails.is_empty() {
                    let fs = std::mem::take(&mut ctx.fails);
                    let mut t = path.clone();
                    t.push(ev);
                    stop = rec.record::<D>(cfg, k, true, &t, &fs, false);
                    if stop {
                        exhausted = false;
                        break 'outer;
                    }
                }
            }
            d.finish(&mut Ctx::new());
        }
        ctx.episodes += 1;
        total_states += index.len() as u64;
        if exhausted && frontier.is_empty() {
            n_exh += 1;
        } else {
            all_exhausted = false;
        }
    }
    Outcome {
        ctx,
        witnesses: rec.witnesses,
        other_fails: rec.other,
        samples,
        bfs_states: total_states,
        bfs_exhausted: all_exhausted && n_cfg > 0,
        bfs_depth: max_depth,
        bfs_configs: n_cfg,
        bfs_exhausted_configs: n_exh,
    }
}

/// Exhaustive sweep: every legal event sequence up to `max_depth` (no
/// de-duplication), with the end-of-history audit at every prefix.
pub fn run_sweep<D: Driver>(opts: &RunOpts) -> Outcome {
    let mut ctx = Ctx::new();
    let mut rec = Recorder {
        opts,
        witnesses: vec![],
        other: BTreeMap::new(),
        seen_target: HashSet::new(),
    };
    let mut cfgs = D::configs(opts.tier);
    if let Some(f) = &opts.cfg_filter {
        cfgs.retain(|c| c.contains(f.as_str()));
    }
    cfgs.retain(|c| !c.contains("nobfs=1"));
    let mut samples = vec![];
    let mut n_cfg = 0u64;
    let mut complete = 0u64;
    let mut stop = false;
    for (ci, cfg) in cfgs.iter().enumerate() {
        if ci % opts.shards != opts.shard || stop {
            continue;
        }
        n_cfg += 1;
        // iterative DFS over event sequences; every node = one replayed history + audit
        let mut stack: Vec<Vec<Ev>> = vec![vec![]];
        let mut truncated = false;
        let mut en: Vec<Ev> = vec![];
        while let Some(path) = stack.pop() {
            if ctx.events >= opts.events {
                truncated = true;
                break;
            }
            let mut d = D::new(cfg, opts.k, true);
            let mut bad = false;
            for (i, e) in path.iter().enumerate() {
                ctx.cur_fp = d.fp();
                ctx.cur_ev = *e;
                ctx.fails.clear();
                ctx.events += 1;
                ctx.kind_counts[e.k as usize] += 1;
                d.step(*e, &mut ctx);
                if !ctx.fails.is_empty() {
                    // only the last event of a path is new (prefixes were run before)
                    let fs = std::mem::take(&mut ctx.fails);
                    stop = rec.record::<D>(cfg, opts.k, true, &path[..=i], &fs, true);
                    bad = true;
                    break;
                }
            }
            if bad {
                std::mem::forget(d);
                ctx.count("abandoned_histories", 1);
                if stop {
                    break;
                }
                continue;
            }
            let fp = d.fp();
            if ctx.states.len() < SET_CAP {
                ctx.states.insert(fp);
            }
            if path.len() < opts.max_depth {
                en.clear();
                d.enabled(&mut en);
                for e in en.iter().rev() {
                    let mut p = path.clone();
                    p.push(*e);
                    stack.push(p);
                }
            } else if samples.len() < 3 {
                samples.push(trace_to_string::<D>(cfg, &path));
            }
            ctx.episodes += 1;
            ctx.cur_fp = fp;
            ctx.cur_ev = Ev::new(255, 0, 0);
            ctx.fails.clear();
            d.finish(&mut ctx);
            if !ctx.fails.is_empty() {
                let fs = std::mem::take(&mut ctx.fails);
                stop = rec.record::<D>(cfg, opts.k, true, &path, &fs, false);
                if stop {
                    break;
                }
            }
        }
        if !truncated && !stop {
            complete += 1;
        }
    }
    Outcome {
        ctx,
        witnesses: rec.witnesses,
        other_fails: rec.other,
        samples,
        bfs_states: 0,
        bfs_exhausted: complete == n_cfg && n_cfg > 0,
        bfs_depth: opts.max_depth as u64,
        bfs_configs: n_cfg,
        bfs_exhausted_configs: complete,
    }
}

pub fn replay<D: Driver>(w: &WitnessFile) -> i32 {
    let mut ctx = Ctx::new();
    match run_trace::<D>(&w.cfg, w.k, w.bounded, &w.trace, &mut ctx, true) {
        None => {
            println!("REPLAY invalid: an event of the witness is not enabled on this tree");
            3
        }
        Some(fs) => {
            for (i, e) in w.trace.iter().enumerate() {
                println!("  {:3} {}", i, D::ev_name(*e));
            }
            if fs.is_empty() {
                println!("REPLAY passed: no predicate failed");
                0
            } else {
                for f in &fs {
                    println!("REPLAY failed: property={} predicate={} {}", f.prop, f.pred, f.detail);
                }
                1
            }
        }
    }
}

pub fn summary_json<D: Driver>(opts: &RunOpts, o: &Outcome, wall_ms: u64) -> String {
    let driver = D::name();
    let mut j = Json::new();
    j.begin_obj();
    j.kv_str("driver", driver);
    j.kv_str("mode", &opts.mode);
    j.kv_str("prop", &opts.prop);
    j.kv_num("seed", opts.seed);
    j.kv_num("k", opts.k as u64);
    j.kv_num("events", o.ctx.events);
    j.kv_num("episodes", o.ctx.episodes);
    j.kv_num("states", o.ctx.states.len() as u64);
    j.kv_num("transitions", o.ctx.transitions.len() as u64);
    j.kv_num("wall_ms", wall_ms);
    j.kv_num("max_queue", o.ctx.max_queue);
    j.key("new_states_by_quarter");
    j.begin_arr();
    for q in o.ctx.new_states_by_quarter {
        j.num(q);
    }
    j.end_arr();
    j.key("bfs");
    j.begin_obj();
    j.kv_num("states", o.bfs_states);
    j.kv_bool("exhausted", o.bfs_exhausted);
    j.kv_num("max_depth", o.bfs_depth);
    j.kv_num("configs", o.bfs_configs);
    j.kv_num("exhausted_configs", o.bfs_exhausted_configs);
    j.end_obj();
    j.key("props");
    j.begin_obj();
    for (p, s) in &o.ctx.props {
        j.key(p);
        j.begin_obj();
        j.kv_num("evals", s.evals);
        j.kv_num("nonvac", s.nonvac);
        j.kv_num("distinct", s.distinct.len() as u64);
        j.key("preds");
        j.begin_obj();
        for (n, st) in &s.by_pred {
            j.key(n);
            j.begin_arr();
            j.num(st.evals);
            j.num(st.nonvac);
            j.end_arr();
        }
        j.end_obj();
        j.end_obj();
    }
    j.end_obj();
    j.key("kinds");
    j.begin_obj();
    for k in 0..256usize {
        if o.ctx.kind_counts[k] > 0 {
            let n = D::ev_name(Ev::new(k as u8, 0, 0));
            let n = n.split('(').next().unwrap_or("?").to_string();
            j.kv_num(&n, o.ctx.kind_counts[k]);
        }
    }
    j.end_obj();
    j.key("counters");
    j.begin_obj();
    for (k, v) in &o.ctx.counters {
        j.kv_num(k, *v);
    }
    j.end_obj();
    j.key("aux_sets");
    j.begin_obj();
    for (k, v) in &o.ctx.aux_sets {
        j.kv_num(k, v.len() as u64);
    }
    j.end_obj();
    j.key("violations");
    j.begin_arr();
    for w in &o.witnesses {
        j.begin_obj();
        j.kv_str("prop", w.fail.prop);
        j.kv_str("pred", w.fail.pred);
        j.kv_str("detail", &w.fail.detail);
        j.kv_str("cfg", &w.cfg);
        j.kv_str("replay", &w.path);
        j.kv_num("len", w.trace.len() as u64);
        j.kv_num("shrunk_from", w.shrunk_from as u64);
        j.key("events");
        j.begin_arr();
        for n in &w.names {
            j.str(n);
        }
        j.end_arr();
        j.end_obj();
    }
    j.end_arr();
    j.key("other_fails");
    j.begin_obj();
    for (k, (n, ex)) in &o.other_fails {
        j.key(k);
        j.begin_obj();
        j.kv_num("n", *n);
        j.kv_str("example", ex);
        j.end_obj();
    }
    j.end_obj();
    j.key("samples");
    j.begin_arr();
    for s in &o.samples {
        j.str(s);
    }
    j.end_arr();
    j.end_obj();
    j.s
}

/// Writes the distinct-set of one property (sorted u64 little endian).
pub fn write_hashes(path: &str, set: &HashSet<u64>) {
    let mut v: Vec<u64> = set.iter().copied().collect();
    v.sort_unstable();
    let mut bytes = Vec::with_capacity(v.len() * 8);
    for x in v {
        bytes.extend_from_slice(&x.to_le_bytes());
    }
    let _ = std::fs::write(path, bytes);
}

pub fn union_count(paths: &[String]) -> u64 {
    let mut all: HashSet<u64> = HashSet::new();
    for p in paths {
        if let Ok(b) = std::fs::read(p) {
            for c in b.chunks_exact(8) {
                all.insert(u64::from_le_bytes(c.try_into().unwrap()));
            }
        }
    }
    all.len() as u64
}
