//! Allocation free identity wakers and the wake log (DESIGN §3.1).
//!
//! A waker is `RawWaker { data = id, vtable = &VT }`. `clone` copies, `drop`
//! is a no-op, `wake` / `wake_by_ref` record `(seq, id)`. No allocation, no
//! lock, no re-entry into the crate under test, Relaxed atomics only.

use std::sync::atomic::{AtomicU32, AtomicU64, Ordering::Relaxed};
use std::task::{RawWaker, RawWakerVTable, Waker};

#[cfg(not(miri))]
pub const MAX_IDS: usize = 1 << 14;
#[cfg(miri)]
pub const MAX_IDS: usize = 1 << 10;
#[cfg(not(miri))]
const LOG_LEN: usize = 1 << 12;
#[cfg(miri)]
const LOG_LEN: usize = 1 << 8;

/// Global logical clock: bumped by every poll and every wake.
static SEQ: AtomicU64 = AtomicU64::new(1);
/// Sequence number of the last wake per waker id (0 = never).
static LAST_WAKE: [AtomicU64; MAX_IDS] = [const { AtomicU64::new(0) }; MAX_IDS];
/// Number of wakes per waker id.
static WAKE_COUNT: [AtomicU32; MAX_IDS] = [const { AtomicU32::new(0) }; MAX_IDS];
/// Ring buffer with the ids of the most recent wakes, in order.
static LOG: [AtomicU32; LOG_LEN] = [const { AtomicU32::new(0) }; LOG_LEN];
static LOG_POS: AtomicU64 = AtomicU64::new(0);
/// Wakes on ids outside of the table (must not happen)
pub static OUT_OF_RANGE: AtomicU64 = AtomicU64::new(0);
/// Number of waker clones / drops (informational)
pub static CLONES: AtomicU64 = AtomicU64::new(0);
pub static DROPS: AtomicU64 = AtomicU64::new(0);

static VT: RawWakerVTable = RawWakerVTable::new(vt_clone, vt_wake, vt_wake, vt_drop);

unsafe fn vt_clone(data: *const ()) -> RawWaker {
    CLONES.fetch_add(1, Relaxed);
    RawWaker::new(data, &VT)
}

unsafe fn vt_wake(data: *const ()) {
    let id = data as usize;
    let seq = SEQ.fetch_add(1, Relaxed);
    if id < MAX_IDS {
        LAST_WAKE[id].store(seq, Relaxed);
        WAKE_COUNT[id].fetch_add(1, Relaxed);
    } else {
        OUT_OF_RANGE.fetch_add(1, Relaxed);
    }
    let pos = LOG_POS.fetch_add(1, Relaxed);
    LOG[(pos as usize) % LOG_LEN].store(id as u32, Relaxed);
}

unsafe fn vt_drop(_data: *const ()) {
    DROPS.fetch_add(1, Relaxed);
}

/// Creates the waker with the given identity (id must be > 0).
pub fn waker(id: usize) -> Waker {
    debug_assert!(id > 0 && id < MAX_IDS);
    // Safety: the vtable functions never dereference `data`
    unsafe { Waker::from_raw(RawWaker::new(core::ptr::without_provenance(id), &VT)) }
}

/// Advances the logical clock and returns the new timestamp.
#[inline]
pub fn tick() -> u64 {
    SEQ.fetch_add(1, Relaxed)
}

#[inline]
pub fn now() -> u64 {
    SEQ.load(Relaxed)
}

#[inline]
pub fn last_wake(id: usize) -> u64 {
    LAST_WAKE[id].load(Relaxed)
}

#[inline]
pub fn wake_count(id: usize) -> u32 {
    WAKE_COUNT[id].load(Relaxed)
}

/// Position in the wake log; use with `log_since`.
#[inline]
pub fn log_mark() -> u64 {
    LOG_POS.load(Relaxed)
}

/// Ids woken since `mark`, in wake order (at most LOG_LEN).
pub fn log_since(mark: u64, out: &mut Vec<u32>) {
    out.clear();
    let end = LOG_POS.load(Relaxed);
    let start = mark.max(end.saturating_sub(LOG_LEN as u64));
    for p in start..end {
        out.push(LOG[(p as usize) % LOG_LEN].load(Relaxed));
    }
}

/// Resets the per id tables (start of an episode). The clock keeps running.
pub fn reset_ids(upto: usize) {
    for i in 0..upto.min(MAX_IDS) {
        LAST_WAKE[i].store(0, Relaxed);
        WAKE_COUNT[i].store(0, Relaxed);
    }
}
