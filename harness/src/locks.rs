//! Lock types used to instantiate the generic flavours of the primitives.

use lock_api::{GuardSend, RawMutex};
use std::sync::atomic::{AtomicBool, Ordering};

/// Extracts the raw mutex type of a primitive (used to name the crate's
/// unexported `NoopLock` through the `Local*` aliases).
pub trait LockOf {
    type L: RawMutex;
}
impl<M: RawMutex, T> LockOf for futures_intrusive::sync::GenericMutex<M, T> {
    type L = M;
}

/// The crate's own (unexported) `NoopLock`: local flavour.
pub type Noop = <futures_intrusive::sync::LocalMutex<()> as LockOf>::L;
/// parking_lot: the default thread-safe flavour.
pub type Pl = parking_lot::RawMutex;

/// A tiny test-and-set spin lock: a third, user supplied `RawMutex`, so that
/// the *generic* flavours are exercised (and a lock Miri / TSan fully see).
pub struct Spin {
    locked: AtomicBool,
}

unsafe impl RawMutex for Spin {
    #[allow(clippy::declare_interior_mutable_const)]
    const INIT: Spin = Spin {
        locked: AtomicBool::new(false),
    };
    type GuardMarker = GuardSend;
    fn lock(&self) {
        crate::conc::lock_window();
        while self
            .locked
            .compare_exchange_weak(false, true, Ordering::Acquire, Ordering::Relaxed)
            .is_err()
        {
            std::thread::yield_now();
        }
    }
    fn try_lock(&self) -> bool {
        self.locked
            .compare_exchange(false, true, Ordering::Acquire, Ordering::Relaxed)
            .is_ok()
    }
    unsafe fn unlock(&self) {
        self.locked.store(false, Ordering::Release);
        // a user supplied lock may be arbitrarily slow: in threaded runs a random delay is injected
        // right after every internal critical section of the crate ends (and before the next begins).
        // This widens *every* window between two critical sections, including windows that a change
        // to the crate newly creates, without needing a hook point there.
        crate::conc::lock_window();
    }
}

pub trait LockName {
    const NAME: &'static str;
}
impl LockName for Noop {
    const NAME: &'static str = "local";
}
impl LockName for Pl {
    const NAME: &'static str = "sync";
}
impl LockName for Spin {
    const NAME: &'static str = "spin";
}

/// Parses "key=value" out of a comma separated configuration string.
pub fn cfg_get<'a>(cfg: &'a str, key: &str) -> Option<&'a str> {
    cfg.split(',').find_map(|kv| {
        let (k, v) = kv.split_once('=')?;
        if k == key {
            Some(v)
        } else {
            None
        }
    })
}
pub fn cfg_num(cfg: &str, key: &str, default: u64) -> u64 {
    cfg_get(cfg, key).and_then(|v| v.parse().ok()).unwrap_or(default)
}
