//! C20 (heap half): differential monitor of the intrusive pairing heap
//! against a multiset reference, with a structural validator after every op.

use crate::engine::{Ctx, Driver, Ev, Tier};
use crate::slots::call_p;
use crate::util::Fp;
use futures_intrusive::verif::{HeapNode, PairingHeap};
use std::pin::Pin;

pub const INSERT: u8 = 0; // a = node, b = key index
pub const REMOVE: u8 = 1;

const KEYS: [u32; 3] = [3, 5, 9];

pub fn ev_name(e: Ev) -> String {
    match e.k {
        INSERT => format!("Insert({},key={})", e.a, KEYS[e.b as usize]),
        REMOVE => format!("Remove({})", e.a),
        255 => "End()".into(),
        _ => "?".into(),
    }
}

/// Keys compare by `key` only, so that equal keys are real duplicates.
#[derive(Debug)]
pub struct K {
    key: u32,
    id: u32,
}
impl PartialEq for K {
    fn eq(&self, o: &K) -> bool {
        self.key == o.key
    }
}
impl Eq for K {}
impl PartialOrd for K {
    fn partial_cmp(&self, o: &K) -> Option<std::cmp::Ordering> {
        Some(self.cmp(o))
    }
}
impl Ord for K {
    fn cmp(&self, o: &K) -> std::cmp::Ordering {
        self.key.cmp(&o.key)
    }
}

pub struct HeapDriver {
    heap: PairingHeap<K>,
    nodes: Vec<Pin<Box<HeapNode<K>>>>,
    member: Vec<bool>,
    fp: u64,
    shapes_key: u64,
}

impl HeapDriver {
    fn addr(&self, i: usize) -> usize {
        &*self.nodes[i] as *const HeapNode<K> as usize
    }

    fn validate(&mut self, ctx: &mut Ctx) {
        let addrs: Vec<usize> = (0..self.nodes.len()).map(|i| self.addr(i)).collect();
        // (addr, key, id, parent, prev, next, first_child)
        let mut walked: Vec<(usize, u32, u32, usize, usize, usize, usize)> = vec![];
        let mut bad: Option<String> = None;
        let limit = self.nodes.len();
        unsafe {
            self.heap.verif_walk(&mut |addr, node| match node {
                None => {
                    if !addrs.contains(&addr) {
                        bad = Some(format!("heap contains unknown address {:#x}", addr));
                        return false;
                    }
                    if walked.len() >= limit || walked.iter().any(|w| w.0 == addr) {
                        bad = Some("heap walk visits a node twice (cycle / shared child)".into());
                        return false;
                    }
                    true
                }
                Some(n) => {
                    let (pa, pr, nx, fc) = n.verif_links();
                    walked.push((addr, n.key, n.id, pa, pr, nx, fc));
                    true
                }
            });
        }
        ctx.check("C20", "heap-walk-sound", true, bad.is_none(), || bad.clone().unwrap());
        if bad.is_some() {
            return;
        }
        let mut reach: Vec<usize> = walked.iter().map(|w| w.2 as usize).collect();
        reach.sort();
        let want: Vec<usize> = (0..self.nodes.len()).filter(|i| self.member[*i]).collect();
        ctx.check("C20", "heap-membership-equals-reference", true, reach == want, || format!("reachable nodes {:?}, reference members {:?}", reach, want));
        let find = |a: usize| walked.iter().find(|w| w.0 == a);
        let root = self.heap.verif_root();
        let mut err: Option<String> = None;
        if walked.is_empty() {
            if root != 0 {
                err = Some("empty heap with root set".into());
            }
        } else if root != walked[0].0 {
            err = Some("root is not the first walked node".into());
        }
        for w in &walked {
            if w.0 == root {
                if w.3 != 0 || w.4 != 0 || w.5 != 0 {
                    err = Some(format!("root node {} has parent/sibling links", w.2));
                }
            } else {
                match find(w.3) {
                    None => err = Some(format!("node {} has a parent that is not in the heap", w.2)),
                    Some(p) => {
                        if p.1 > w.1 {
                            err = Some(format!("heap order violated: parent {} key {} > child {} key {}", p.2, p.1, w.2, w.1));
                        }
                        if w.4 == 0 && p.6 != w.0 {
                            err = Some(format!("node {} has no prev sibling but is not its parent's first child", w.2));
                        }
                    }
                }
            }
            if w.5 != 0 {
                match find(w.5) {
                    None => err = Some(format!("node {}: next sibling not in heap", w.2)),
                    Some(n) => {
                        if n.4 != w.0 || n.3 != w.3 {
                            err = Some(format!("node {}: next sibling's prev/parent do not point back", w.2));
                        }
                    }
                }
            }
            if w.4 != 0 {
                match find(w.4) {
                    None => err = Some(format!("node {}: prev sibling not in heap", w.2)),
                    Some(p) => {
                        if p.5 != w.0 {
                            err = Some(format!("node {}: prev sibling's next does not point back", w.2));
                        }
                    }
                }
            }
            if w.6 != 0 {
                match find(w.6) {
                    None => err = Some(format!("node {}: first child not in heap", w.2)),
                    Some(c) => {
                        if c.3 != w.0 || c.4 != 0 {
                            err = Some(format!("node {}: first child's parent/prev wrong", w.2));
                        }
                    }
                }
            }
        }
        ctx.check("C20", "heap-links-consistent-and-heap-ordered", true, err.is_none(), || err.clone().unwrap());
        // peek_min is a minimum of the reference multiset
        let pm = self.heap.peek_min().map(|p| unsafe { p.as_ref().key });
        let min = (0..self.nodes.len()).filter(|i| self.member[*i]).map(|i| self.nodes[i].key).min();
        ctx.check("C20", "peek_min-is-a-minimum", true, pm == min, || format!("peek_min key {:?}, reference minimum {:?}", pm, min));
        for i in 0..self.nodes.len() {
            if !self.member[i] {
                let l = self.nodes[i].verif_links();
                ctx.check("C20", "removed-node-carries-no-links", true, l == (0, 0, 0, 0), || format!("node {} is not in the heap but has links {:?}", i, l));
            }
        }
        // fingerprint = exact shape
        let mut f = Fp::new();
        for w in &walked {
            f.add(w.2 as u64 + 1);
            f.add(w.1 as u64);
            f.add(find(w.3).map_or(0, |p| p.2 as u64 + 1));
        }
        // keys of non-members matter for future inserts only through the event
        self.fp = f.get();
        let mut sh = Fp::new();
        for w in &walked {
            sh.add(walked.iter().position(|x| x.0 == w.3).map_or(99, |p| p as u64));
            sh.add(w.1 as u64);
        }
        self.shapes_key = sh.get();
        ctx.aux_sets.entry("heap_shapes").or_default().insert(self.shapes_key);
    }
}

impl Driver for HeapDriver {
    fn name() -> &'static str {
        "heap"
    }
    fn configs(_tier: Tier) -> Vec<String> {
        vec!["heap".into()]
    }
    fn new(_cfg: &str, k: usize, _bounded: bool) -> Self {
        let mut nodes = vec![];
        for i in 0..k.max(2) {
            nodes.push(Box::pin(HeapNode::new(K { key: KEYS[0], id: i as u32 })));
        }
        let n = nodes.len();
        let mut d = HeapDriver { heap: PairingHeap::new(), nodes, member: vec![false; n], fp: 0, shapes_key: 0 };
        let mut ctx = Ctx::new();
        ctx.track_distinct = false;
        d.validate(&mut ctx);
        d
    }
    fn enabled(&self, out: &mut Vec<Ev>) {
        let mut inserted = false;
        for i in 0..self.nodes.len() {
            if self.member[i] {
                out.push(Ev::new(REMOVE, i as u8, 0));
            } else if !inserted {
                // free nodes are interchangeable: insert the lowest free one with every key
                for kx in 0..KEYS.len() {
                    out.push(Ev::new(INSERT, i as u8, kx as u8));
                }
                inserted = true;
            }
        }
    }
    fn weight(&self, ev: Ev, profile: u8) -> u32 {
        match (ev.k, profile) {
            (INSERT, 0) | (INSERT, 2) => 6,
            (REMOVE, 1) => 8,
            _ => 4,
        }
    }
    fn step(&mut self, ev: Ev, ctx: &mut Ctx) {
        let a = ev.a as usize;
        // Safety: nodes are never moved
        let node: *mut HeapNode<K> = unsafe { Pin::get_unchecked_mut(self.nodes[a].as_mut()) };
        let heap = &mut self.heap;
        match ev.k {
            INSERT => {
                unsafe { (&mut *node).key = KEYS[ev.b as usize] };
                call_p(ctx, "C20", "heap-insert", 0, 0, || unsafe { heap.insert(&mut *node) });
                self.member[a] = true;
            }
            REMOVE => {
                call_p(ctx, "C20", "heap-remove", 0, 0, || unsafe { heap.remove(&mut *node) });
                self.member[a] = false;
            }
            _ => unreachable!(),
        }
        self.validate(ctx);
    }
    fn fp(&self) -> u64 {
        self.fp
    }
    fn finish(mut self, ctx: &mut Ctx) {
        for i in 0..self.nodes.len() {
            if self.member[i] {
                let node: *mut HeapNode<K> = unsafe { Pin::get_unchecked_mut(self.nodes[i].as_mut()) };
                unsafe { self.heap.remove(&mut *node) };
                self.member[i] = false;
                self.validate(ctx);
            }
        }
    }
    fn ev_name(ev: Ev) -> String {
        ev_name(ev)
    }
}
