//! Data structure monitors (C19 ring buffers, C20 list / pairing heap).
pub mod heap;
pub mod list;
pub mod ringbuf;
