//! C19: differential monitor of ArrayBuf / FixedHeapBuf / GrowingHeapBuf
//! against VecDeque with drop-counting (and boxed) elements.

use crate::engine::{Ctx, Driver, Ev, Tier};
use crate::locks::{cfg_get, cfg_num};
use crate::payload::{self, BVal, Payload, Val, Zst};
use crate::slots::call_p;
use crate::util::Fp;
use futures_intrusive::buffer::{ArrayBuf, FixedHeapBuf, GrowingHeapBuf, RingBuf};
use std::collections::VecDeque;

pub const PUSH: u8 = 0;
pub const POP: u8 = 1;
pub const PROBE: u8 = 2;

pub fn ev_name(e: Ev) -> String {
    match e.k {
        PUSH => "Push()".into(),
        POP => "Pop()".into(),
        PROBE => "Probe()".into(),
        255 => "DropBuffer()".into(),
        _ => "?".into(),
    }
}

/// Object safe view of a ring buffer.
trait Buf<P> {
    fn capacity(&self) -> usize;
    fn len(&self) -> usize;
    fn is_empty(&self) -> bool;
    fn can_push(&self) -> bool;
    fn push(&mut self, v: P);
    fn pop(&mut self) -> P;
}
impl<P, B: RingBuf<Item = P>> Buf<P> for B {
    fn capacity(&self) -> usize {
        RingBuf::capacity(self)
    }
    fn len(&self) -> usize {
        RingBuf::len(self)
    }
    fn is_empty(&self) -> bool {
        RingBuf::is_empty(self)
    }
    fn can_push(&self) -> bool {
        RingBuf::can_push(self)
    }
    fn push(&mut self, v: P) {
        RingBuf::push(self, v)
    }
    fn pop(&mut self) -> P {
        RingBuf::pop(self)
    }
}

/// User defined backing arrays (the documented way to get lengths that the crate does not cover):
/// lengths above 64 that are not powers of two.
macro_rules! user_array {
    ($name:ident, $n:literal) => {
        pub struct $name<P>(pub [P; $n]);
        unsafe impl<P> futures_intrusive::buffer::RealArray<P> for $name<P> {
            const LEN: usize = $n;
        }
        impl<P> AsMut<[P]> for $name<P> {
            fn as_mut(&mut self) -> &mut [P] {
                &mut self.0
            }
        }
        impl<P> AsRef<[P]> for $name<P> {
            fn as_ref(&self) -> &[P] {
                &self.0
            }
        }
    };
}
user_array!(Arr100, 100);
user_array!(Arr384, 384);
// more elements than a 16 bit index can address
user_array!(Arr70000, 70000);

fn make<P: Payload>(kind: &str, cap: usize) -> Box<dyn Buf<P>> {
    macro_rules! arr {
        ($($n:literal),*) => {
            match cap {
                $($n => Box::new(ArrayBuf::<P, [P; $n]>::new()) as Box<dyn Buf<P>>,)*
                _ => Box::new(ArrayBuf::<P, [P; 64]>::new()),
            }
        };
    }
    match kind {
        "array" => arr!(0, 1, 2, 3, 4, 5, 6, 7, 8, 12, 16),
        "user" => match cap {
            100 => Box::new(ArrayBuf::<P, Arr100<P>>::new()),
            70000 => Box::new(ArrayBuf::<P, Arr70000<P>>::new()),
            _ => Box::new(ArrayBuf::<P, Arr384<P>>::new()),
        },
        "huge" => Box::new(ArrayBuf::<P, [P; 65536]>::new()),
        "arraywc" => match cap {
            // with_capacity must ignore its argument for array buffers
            2 => Box::new(ArrayBuf::<P, [P; 2]>::with_capacity(17)),
            _ => Box::new(ArrayBuf::<P, [P; 3]>::with_capacity(0)),
        },
        "fixed" => Box::new(FixedHeapBuf::<P>::with_capacity(cap)),
        "fixednew" => Box::new(<FixedHeapBuf<P> as RingBuf>::new()),
        "growingnew" => Box::new(<GrowingHeapBuf<P> as RingBuf>::new()),
        _ => Box::new(GrowingHeapBuf::<P>::with_capacity(cap)),
    }
}

pub struct RbCore<P: Payload> {
    buf: Option<Box<dyn Buf<P>>>,
    cap: usize,
    model: VecDeque<u32>,
    popped: Vec<P>,
    base: u32,
    next: u32,
    pushes: u64,
    wrapped: bool,
    fp: u64,
    growing: bool,
    /// very large buffers: tags are not tracked individually (the counter tables are smaller)
    huge: bool,
}

impl<P: Payload> RbCore<P> {
    fn post(&mut self, ctx: &mut Ctx) {
        let b = self.buf.as_ref().unwrap();
        let (len, empty, can, cap) = (b.len(), b.is_empty(), b.can_push(), b.capacity());
        let m = self.model.len();
        ctx.check("C19", "len-is_empty-can_push-capacity-consistent", true, len == m && empty == (m == 0) && can == (m < self.cap) && cap == self.cap, || {
            format!("len()={} is_empty()={} can_push()={} capacity()={} but {} elements stored, capacity {}", len, empty, can, cap, m, self.cap)
        });
        if !self.huge {
            for t in &self.model {
                let d = payload::drops(*t);
                ctx.check("C19", "stored-element-not-dropped", true, d == 0, || format!("stored tag {} has drop count {}", t, d));
            }
        }
        let mut f = Fp::new();
        f.add(m as u64);
        f.add(if self.cap > 0 { self.pushes % self.cap as u64 } else { 0 });
        f.add(self.popped.len().min(2) as u64);
        self.fp = f.get();
    }

    fn new(cfg: &str) -> Self {
        let kind = cfg_get(cfg, "buf").unwrap_or("array");
        let cap_arg = cfg_num(cfg, "cap", 2) as usize;
        let buf = make::<P>(kind, cap_arg);
        let cap = match kind {
            "fixednew" | "growingnew" => 0,
            "arraywc" => if cap_arg == 2 { 2 } else { 3 },
            "array" => if [0, 1, 2, 3, 4, 5, 6, 7, 8, 12, 16].contains(&cap_arg) { cap_arg } else { 64 },
            "user" => if cap_arg == 100 || cap_arg == 70000 { cap_arg } else { 384 },
            "huge" => 65536,
            _ => cap_arg,
        };
        // zero sized elements have no identity either: only counts and per-call drop deltas are checked
        let huge = cap > 1000 || P::ANON;
        let base = if huge { 1 } else { payload::reserve(4000) };
        let mut c = RbCore {
            buf: Some(buf),
            cap,
            model: VecDeque::new(),
            popped: Vec::with_capacity(8),
            base,
            next: base,
            pushes: 0,
            wrapped: false,
            fp: 0,
            growing: kind.starts_with("growing"),
            huge,
        };
        let mut ctx = Ctx::new();
        ctx.track_distinct = false;
        c.post(&mut ctx);
        c
    }

    fn enabled(&self, out: &mut Vec<Ev>) {
        if self.model.len() < self.cap && (self.huge || ((self.next - self.base) as usize) < if cfg!(miri) { 300 } else { 3900 }) {
            out.push(Ev::new(PUSH, 0, 0));
        }
        if !self.model.is_empty() {
            out.push(Ev::new(POP, 0, 0));
        }
        if self.cap == 0 {
            // nothing else is legal on a zero capacity buffer: observe it at least
            out.push(Ev::new(PROBE, 0, 0));
        }
    }

    fn step(&mut self, ev: Ev, ctx: &mut Ctx) {
        let (al, de) = if P::ALLOCATES || self.growing { (u64::MAX, u64::MAX) } else { (0, 0) };
        match ev.k {
            PUSH => {
                let t = if self.huge { 1 + (self.next % 60_000) } else { self.next };
                self.next += 1;
                let v = P::new(t);
                let b = self.buf.as_mut().unwrap();
                let z0 = payload::zst_drops();
                call_p(ctx, "C19", "ringbuf-push", al, de, move || b.push(v));
                if P::ANON {
                    let dz = payload::zst_drops() - z0;
                    ctx.check("C19", "push-drops-nothing", true, dz == 0, || format!("{} zero sized elements were dropped inside push()", dz));
                }
                self.model.push_back(t);
                self.pushes += 1;
                if self.cap > 0 && self.pushes > self.cap as u64 {
                    self.wrapped = true;
                }
            }
            POP => {
                let b = self.buf.as_mut().unwrap();
                let z0 = payload::zst_drops();
                if let Some(v) = call_p(ctx, "C19", "ringbuf-pop", al, de, move || b.pop()) {
                    let want = self.model.pop_front();
                    let got = if P::ANON { want.unwrap_or(0) } else { v.tag() };
                    if P::ANON {
                        let dz = payload::zst_drops() - z0;
                        ctx.check("C19", "popped-element-not-dropped-by-buffer", true, dz == 0, || format!("{} zero sized elements were dropped inside pop()", dz));
                    }
                    ctx.check("C19", "pop-returns-oldest-element", true, Some(got) == want, || format!("pop() returned tag {} expected {:?}", got, want));
                    let d = if self.huge { 0 } else { payload::drops(got) };
                    ctx.check("C19", "popped-element-not-dropped-by-buffer", true, d == 0, || format!("popped tag {} already has drop count {}", got, d));
                    // keep a few popped elements alive across the buffer's drop
                    if self.popped.len() < 4 {
                        self.popped.push(v);
                    }
                }
            }
            PROBE => {}
            _ => unreachable!(),
        }
        self.post(ctx);
    }

    fn finish(mut self, ctx: &mut Ctx) {
        let stored: Vec<u32> = self.model.iter().copied().collect();
        let wrapped = self.wrapped;
        let b = self.buf.take().unwrap();
        let z0 = payload::zst_drops();
        call_p(ctx, "C19", "ringbuf-drop", u64::MAX, u64::MAX, move || drop(b));
        if P::ANON {
            let dz = payload::zst_drops() - z0;
            ctx.check("C19", "buffer-drop-drops-every-stored-element-exactly-once", true, dz == stored.len() as u64, || {
                format!("{} zero sized elements were stored when the buffer was dropped (wrapped: {}), {} were dropped", stored.len(), wrapped, dz)
            });
        }
        if self.huge {
            self.popped.clear();
            return;
        }
        for t in &stored {
            let d = payload::drops(*t);
            ctx.check("C19", "buffer-drop-drops-every-stored-element-exactly-once", true, d == 1, || {
                format!("tag {} was stored when the buffer was dropped (wrapped: {}) and has drop count {}", t, wrapped, d)
            });
        }
        for v in &self.popped {
            let d = payload::drops(v.tag());
            ctx.check("C19", "popped-element-not-dropped-by-buffer", true, d == 0, || format!("popped tag {} was dropped by the buffer's Drop ({} drops)", v.tag(), d));
        }
        let n = self.popped.len();
        self.popped.clear();
        let _ = n;
        for t in self.base..self.next {
            let d = payload::drops(t);
            ctx.check("C19", "every-element-dropped-exactly-once-overall", true, d == 1, || format!("tag {} dropped {} times overall", t, d));
        }
    }
}

pub enum RingbufDriver {
    V(RbCore<Val>),
    B(RbCore<BVal>),
    Z(RbCore<Zst>),
}

impl Driver for RingbufDriver {
    fn name() -> &'static str {
        "ringbuf"
    }
    fn configs(_tier: Tier) -> Vec<String> {
        let mut v = vec![];
        for payload in ["val", "bval"] {
            for cap in [0, 1, 2, 3, 4, 5, 6, 7, 8, 12, 16, 64] {
                v.push(format!("buf=array,cap={},payload={}", cap, payload));
            }
            for cap in 0..6 {
                v.push(format!("buf=fixed,cap={},payload={}", cap, payload));
                v.push(format!("buf=growing,cap={},payload={}", cap, payload));
            }
            for k in ["fixednew", "growingnew"] {
                v.push(format!("buf={},cap=0,payload={}", k, payload));
            }
            v.push(format!("buf=user,cap=100,payload={},nobfs=1", payload));
            v.push(format!("buf=user,cap=384,payload={},nobfs=1", payload));
            v.push(format!("buf=arraywc,cap=2,payload={}", payload));
            v.push(format!("buf=arraywc,cap=3,payload={}", payload));
        }
        if !cfg!(miri) {
            v.push("buf=huge,cap=65536,payload=val,nobfs=1".to_string());
            v.push("buf=user,cap=70000,payload=val,nobfs=1".to_string());
        }
        // zero sized elements (collections special-case them)
        for (k, cap) in [("array", 3), ("fixed", 0), ("fixed", 2), ("fixed", 5), ("growing", 0), ("growing", 3), ("fixednew", 0), ("growingnew", 0)] {
            v.push(format!("buf={},cap={},payload=zst", k, cap));
        }
        v
    }
    fn scenarios(cfg: &str) -> Vec<Vec<Ev>> {
        // fill the buffer completely (counter widths, index wrap at the very end), rotate, refill
        let cap = match (cfg_get(cfg, "buf"), cfg_num(cfg, "cap", 0)) {
            (Some("huge"), _) => 65536,
            (Some("user"), c) => c as usize,
            (Some("array"), 64) => 64,
            _ => return vec![],
        };
        let mut s = vec![Ev::new(PUSH, 0, 0); cap];
        s.extend(vec![Ev::new(POP, 0, 0); cap / 2 + 3]);
        s.extend(vec![Ev::new(PUSH, 0, 0); cap / 2 + 3]);
        s.extend(vec![Ev::new(POP, 0, 0); 5]);
        vec![s]
    }
    fn new(cfg: &str, _k: usize, _bounded: bool) -> Self {
        if cfg_get(cfg, "payload") == Some("bval") {
            RingbufDriver::B(RbCore::new(cfg))
        } else if cfg_get(cfg, "payload") == Some("zst") {
            RingbufDriver::Z(RbCore::new(cfg))
        } else {
            RingbufDriver::V(RbCore::new(cfg))
        }
    }
    fn enabled(&self, out: &mut Vec<Ev>) {
        match self {
            RingbufDriver::V(c) => c.enabled(out),
            RingbufDriver::B(c) => c.enabled(out),
            RingbufDriver::Z(c) => c.enabled(out),
        }
    }
    fn weight(&self, ev: Ev, profile: u8) -> u32 {
        match (ev.k, profile) {
            (PUSH, 0) | (PUSH, 2) => 6,
            (POP, 1) => 6,
            _ => 4,
        }
    }
    fn step(&mut self, ev: Ev, ctx: &mut Ctx) {
        match self {
            RingbufDriver::V(c) => c.step(ev, ctx),
            RingbufDriver::B(c) => c.step(ev, ctx),
            RingbufDriver::Z(c) => c.step(ev, ctx),
        }
    }
    fn fp(&self) -> u64 {
        match self {
            RingbufDriver::V(c) => c.fp,
            RingbufDriver::B(c) => c.fp,
            RingbufDriver::Z(c) => c.fp,
        }
    }
    fn finish(self, ctx: &mut Ctx) {
        match self {
            RingbufDriver::V(c) => c.finish(ctx),
            RingbufDriver::B(c) => c.finish(ctx),
            RingbufDriver::Z(c) => c.finish(ctx),
        }
    }
    fn ev_name(ev: Ev) -> String {
        ev_name(ev)
    }
}
