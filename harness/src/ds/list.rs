//! C20 (list half): differential monitor of the intrusive doubly linked list
//! against VecDeque, with a structural validator after every operation.

use crate::engine::{Ctx, Driver, Ev, Tier};
use crate::slots::call_p;
use crate::util::Fp;
use futures_intrusive::verif::{LinkedList, ListNode};
use std::collections::VecDeque;
use std::pin::Pin;

pub const ADD_FRONT: u8 = 0;
pub const REMOVE: u8 = 1;
pub const REMOVE_FIRST: u8 = 2;
pub const REMOVE_LAST: u8 = 3;
pub const DRAIN: u8 = 4;
pub const REVERSE_DRAIN: u8 = 5;

pub fn ev_name(e: Ev) -> String {
    match e.k {
        ADD_FRONT => format!("AddFront({})", e.a),
        REMOVE => format!("Remove({})", e.a),
        REMOVE_FIRST => "RemoveFirst()".into(),
        REMOVE_LAST => "RemoveLast()".into(),
        DRAIN => "Drain()".into(),
        REVERSE_DRAIN => "ReverseDrain()".into(),
        255 => "End()".into(),
        _ => "?".into(),
    }
}

pub struct ListDriver {
    list: LinkedList<u32>,
    nodes: Vec<Pin<Box<ListNode<u32>>>>,
    /// reference: node indices, front first
    model: VecDeque<usize>,
    fp: u64,
}

impl ListDriver {
    fn addr(&self, i: usize) -> usize {
        &*self.nodes[i] as *const ListNode<u32> as usize
    }
    fn node_mut(&mut self, i: usize) -> &mut ListNode<u32> {
        // Safety: nodes are never moved
        unsafe { Pin::get_unchecked_mut(self.nodes[i].as_mut()) }
    }

    fn validate(&mut self, ctx: &mut Ctx) {
        // forward walk through the hook, never dereferencing an unknown address
        let addrs: Vec<usize> = (0..self.nodes.len()).map(|i| self.addr(i)).collect();
        let mut walked: Vec<(usize, u32, usize, usize)> = vec![];
        let mut bad: Option<String> = None;
        let limit = self.nodes.len();
        unsafe {
            self.list.verif_walk(&mut |addr, node| match node {
                None => {
                    if !addrs.contains(&addr) {
                        bad = Some(format!("list contains unknown address {:#x}", addr));
                        return false;
                    }
                    if walked.len() >= limit {
                        bad = Some("list walk does not terminate (cycle)".into());
                        return false;
                    }
                    true
                }
                Some(n) => {
                    let (p, nx) = n.verif_links();
                    walked.push((addr, **n, p, nx));
                    true
                }
            });
        }
        ctx.check("C20", "list-walk-sound", true, bad.is_none(), || bad.clone().unwrap());
        if bad.is_some() {
            return;
        }
        let order: Vec<usize> = walked.iter().map(|w| addrs.iter().position(|a| *a == w.0).unwrap()).collect();
        let want: Vec<usize> = self.model.iter().copied().collect();
        ctx.check("C20", "list-content-and-order-equal-deque-reference", true, order == want, || format!("list (front first) {:?}, reference {:?}", order, want));
        let (head, tail) = self.list.verif_ends();
        let mut link_err: Option<String> = None;
        if walked.is_empty() {
            if head != 0 || tail != 0 {
                link_err = Some("empty list with head/tail set".into());
            }
        } else {
            if head != walked[0].0 || tail != walked[walked.len() - 1].0 {
                link_err = Some(format!("head/tail do not match the ends of the walk: head {:#x} tail {:#x}", head, tail));
            }
            for (i, w) in walked.iter().enumerate() {
                let ep = if i == 0 { 0 } else { walked[i - 1].0 };
                let en = if i + 1 == walked.len() { 0 } else { walked[i + 1].0 };
                if w.2 != ep || w.3 != en {
                    link_err = Some(format!("node at position {} has prev/next {:#x}/{:#x}, expected {:#x}/{:#x}", i, w.2, w.3, ep, en));
                }
                let idx = addrs.iter().position(|a| *a == w.0).unwrap();
                if w.1 != idx as u32 * 10 + 1 {
                    link_err = Some(format!("node {} carries data {}", idx, w.1));
                }
            }
        }
        ctx.check("C20", "list-links-mutually-consistent", true, link_err.is_none(), || link_err.clone().unwrap());
        // removed nodes carry no links
        for i in 0..self.nodes.len() {
            if !self.model.contains(&i) {
                let (p, n) = self.nodes[i].verif_links();
                ctx.check("C20", "removed-node-carries-no-links", true, p == 0 && n == 0, || format!("node {} is not in the list but has links {:#x}/{:#x}", i, p, n));
            }
        }
        // peeks and is_empty
        let first = self.list.peek_first().map(|n| **n);
        let last = self.list.peek_last().map(|n| **n);
        let firstm = self.list.peek_first_mut().map(|n| **n);
        let lastm = self.list.peek_last_mut().map(|n| **n);
        let wf = self.model.front().map(|i| *i as u32 * 10 + 1);
        let wl = self.model.back().map(|i| *i as u32 * 10 + 1);
        let empty = self.list.is_empty();
        ctx.check(
            "C20",
            "peeks-and-is_empty-match-reference",
            true,
            first == wf && firstm == wf && last == wl && lastm == wl && empty == self.model.is_empty(),
            || format!("peek_first {:?}/{:?} peek_last {:?}/{:?} is_empty {} vs reference front {:?} back {:?}", first, firstm, last, lastm, empty, wf, wl),
        );
        let mut f = Fp::new();
        for i in &self.model {
            f.add(*i as u64 + 1);
        }
        self.fp = f.get();
    }
}

impl Driver for ListDriver {
    fn name() -> &'static str {
        "list"
    }
    fn configs(_tier: Tier) -> Vec<String> {
        vec!["list".into()]
    }
    fn new(_cfg: &str, k: usize, _bounded: bool) -> Self {
        let mut nodes = vec![];
        for i in 0..k.max(2) {
            nodes.push(Box::pin(ListNode::new(i as u32 * 10 + 1)));
        }
        let mut d = ListDriver { list: LinkedList::new(), nodes, model: VecDeque::new(), fp: 0 };
        let mut ctx = Ctx::new();
        ctx.track_distinct = false;
        d.validate(&mut ctx);
        d
    }
    fn enabled(&self, out: &mut Vec<Ev>) {
        for i in 0..self.nodes.len() {
            if !self.model.contains(&i) {
                out.push(Ev::new(ADD_FRONT, i as u8, 0));
            }
            // removal of members and of non-members
            out.push(Ev::new(REMOVE, i as u8, 0));
        }
        out.push(Ev::new(REMOVE_FIRST, 0, 0));
        out.push(Ev::new(REMOVE_LAST, 0, 0));
        out.push(Ev::new(DRAIN, 0, 0));
        out.push(Ev::new(REVERSE_DRAIN, 0, 0));
    }
    fn weight(&self, ev: Ev, _profile: u8) -> u32 {
        match ev.k {
            ADD_FRONT => 10,
            DRAIN | REVERSE_DRAIN => 1,
            _ => 4,
        }
    }
    fn step(&mut self, ev: Ev, ctx: &mut Ctx) {
        let a = ev.a as usize;
        match ev.k {
            ADD_FRONT => {
                let node: *mut ListNode<u32> = self.node_mut(a);
                let list = &mut self.list;
                // Safety: the node stays pinned in its box and is removed before the box is freed
                call_p(ctx, "C20", "add_front", 0, 0, || unsafe { list.add_front(&mut *node) });
                self.model.push_front(a);
            }
            REMOVE => {
                let node: *mut ListNode<u32> = self.node_mut(a);
                let list = &mut self.list;
                // Safety: the node is either in this list or in no list
                if let Some(r) = call_p(ctx, "C20", "remove", 0, 0, || unsafe { list.remove(&mut *node) }) {
                    let member = self.model.contains(&a);
                    ctx.check("C20", "remove-reports-membership", true, r == member, || format!("remove(node {}) returned {} but membership is {}", a, r, member));
                    self.model.retain(|x| *x != a);
                }
            }
            REMOVE_FIRST | REMOVE_LAST => {
                let list = &mut self.list;
                let first = ev.k == REMOVE_FIRST;
                if let Some(r) = call_p(ctx, "C20", "remove_first/last", 0, 0, || if first { list.remove_first().map(|n| **n) } else { list.remove_last().map(|n| **n) }) {
                    let want = if first { self.model.pop_front() } else { self.model.pop_back() }.map(|i| i as u32 * 10 + 1);
                    ctx.check("C20", "remove_first-last-return-the-ends", true, r == want, || format!("removed {:?}, reference {:?}", r, want));
                }
            }
            DRAIN | REVERSE_DRAIN => {
                let list = &mut self.list;
                let fwd = ev.k == DRAIN;
                let mut seen: Vec<u32> = Vec::with_capacity(16);
                call_p(ctx, "C20", "drain", 0, 0, || {
                    if fwd {
                        list.drain(|n| seen.push(**n))
                    } else {
                        list.reverse_drain(|n| seen.push(**n))
                    }
                });
                let mut want: Vec<u32> = self.model.iter().map(|i| *i as u32 * 10 + 1).collect();
                if !fwd {
                    want.reverse();
                }
                ctx.check("C20", "drain-visits-all-in-order", true, seen == want, || format!("drained {:?}, reference {:?}", seen, want));
                self.model.clear();
            }
            _ => unreachable!(),
        }
        self.validate(ctx);
    }
    fn fp(&self) -> u64 {
        self.fp
    }
    fn finish(mut self, ctx: &mut Ctx) {
        // unlink everything before the boxes are freed
        self.list.drain(|_| {});
        self.model.clear();
        self.validate(ctx);
    }
    fn ev_name(ev: Ev) -> String {
        ev_name(ev)
    }
}
