//! Counting global allocator (C18).
//!
//! The allocator forwards to `System`. While the current thread is *armed*
//! every alloc / realloc / dealloc on that thread is counted. The harness arms
//! the counter exactly around calls into the crate under test.

use std::alloc::{GlobalAlloc, Layout, System};
use std::cell::Cell;
use std::sync::atomic::{AtomicU64, Ordering};

pub struct Counting;

thread_local! {
    static ARMED: Cell<bool> = const { Cell::new(false) };
    static ALLOCS: Cell<u64> = const { Cell::new(0) };
    static DEALLOCS: Cell<u64> = const { Cell::new(0) };
}

/// Process wide totals (armed or not), reported for threaded runs.
pub static TOTAL_ALLOCS: AtomicU64 = AtomicU64::new(0);

#[inline]
fn note_alloc() {
    // `try_with`: the allocator may be called during TLS destruction
    let _ = ARMED.try_with(|a| {
        if a.get() {
            let _ = ALLOCS.try_with(|c| c.set(c.get() + 1));
        }
    });
}

#[inline]
fn note_dealloc() {
    let _ = ARMED.try_with(|a| {
        if a.get() {
            let _ = DEALLOCS.try_with(|c| c.set(c.get() + 1));
        }
    });
}

unsafe impl GlobalAlloc for Counting {
    unsafe fn alloc(&self, layout: Layout) -> *mut u8 {
        note_alloc();
        TOTAL_ALLOCS.fetch_add(1, Ordering::Relaxed);
        System.alloc(layout)
    }
    unsafe fn dealloc(&self, ptr: *mut u8, layout: Layout) {
        note_dealloc();
        System.dealloc(ptr, layout)
    }
    unsafe fn alloc_zeroed(&self, layout: Layout) -> *mut u8 {
        note_alloc();
        TOTAL_ALLOCS.fetch_add(1, Ordering::Relaxed);
        System.alloc_zeroed(layout)
    }
    unsafe fn realloc(&self, ptr: *mut u8, layout: Layout, new_size: usize) -> *mut u8 {
        note_alloc();
        note_dealloc();
        TOTAL_ALLOCS.fetch_add(1, Ordering::Relaxed);
        System.realloc(ptr, layout, new_size)
    }
}

/// Counts observed while armed: (allocs, deallocs)
#[derive(Clone, Copy, Debug, Default, PartialEq, Eq)]
pub struct Counts {
    pub allocs: u64,
    pub deallocs: u64,
}

/// Arms the counter for the current thread and resets the counts.
#[inline]
pub fn arm() {
    ALLOCS.with(|c| c.set(0));
    DEALLOCS.with(|c| c.set(0));
    ARMED.with(|a| a.set(true));
}

/// Disarms and returns whether it was armed.
#[inline]
pub fn disarm() -> bool {
    ARMED.with(|a| a.replace(false))
}

#[inline]
pub fn rearm(was: bool) {
    ARMED.with(|a| a.set(was));
}

/// Disarms and returns what was counted since `arm()`.
#[inline]
pub fn disarm_counts() -> Counts {
    ARMED.with(|a| a.set(false));
    Counts {
        allocs: ALLOCS.with(|c| c.get()),
        deallocs: DEALLOCS.with(|c| c.get()),
    }
}

/// Runs a call into the crate under test with the counter armed.
#[inline]
pub fn armed<R>(f: impl FnOnce() -> R) -> (R, Counts) {
    arm();
    let r = f();
    let c = disarm_counts();
    (r, c)
}
