//! Tagged, drop-counting, clone-counting payloads (DESIGN §3.4).

use std::sync::atomic::{AtomicU32, AtomicU64, Ordering::Relaxed};

#[cfg(not(miri))]
pub const MAX_TAGS: usize = 1 << 18;
/// Miri tracks every cell of a static individually: keep the tables small there.
#[cfg(miri)]
pub const MAX_TAGS: usize = 1 << 11;

static DROPS: [AtomicU32; MAX_TAGS] = [const { AtomicU32::new(0) }; MAX_TAGS];
static CLONES: [AtomicU32; MAX_TAGS] = [const { AtomicU32::new(0) }; MAX_TAGS];
/// Logical time (wakers::now()) of the last drop of a tag
static DROP_AT: [AtomicU64; MAX_TAGS] = [const { AtomicU64::new(0) }; MAX_TAGS];
pub static BAD_TAG: AtomicU64 = AtomicU64::new(0);

pub fn drops(tag: u32) -> u32 {
    DROPS.get(tag as usize).map_or(0, |d| d.load(Relaxed))
}
pub fn clones(tag: u32) -> u32 {
    CLONES.get(tag as usize).map_or(0, |d| d.load(Relaxed))
}
pub fn drop_at(tag: u32) -> u64 {
    DROP_AT.get(tag as usize).map_or(0, |d| d.load(Relaxed))
}
/// Tags at or above this value are not tracked (very large buffers).
pub const UNTRACKED: u32 = 1 << 24;
static NEXT_BASE: AtomicU32 = AtomicU32::new(1);

/// Reserves a block of `n` fresh tags (counters zeroed) and returns the first.
/// Blocks are handed out round-robin over the table; only a handful of
/// driver instances are alive at any time, so a live block is never reused.
pub fn reserve(n: u32) -> u32 {
    let n = if cfg!(miri) { n.min(400) } else { n };
    assert!((n as usize) <= MAX_TAGS / 2);
    loop {
        let base = NEXT_BASE.fetch_add(n, Relaxed);
        if (base as usize) + (n as usize) < MAX_TAGS && base != 0 {
            for i in base..base + n {
                DROPS[i as usize].store(0, Relaxed);
                CLONES[i as usize].store(0, Relaxed);
                DROP_AT[i as usize].store(0, Relaxed);
            }
            return base;
        }
        NEXT_BASE.store(1, Relaxed);
    }
}

pub fn reset(upto: usize) {
    for i in 0..upto.min(MAX_TAGS) {
        DROPS[i].store(0, Relaxed);
        CLONES[i].store(0, Relaxed);
        DROP_AT[i].store(0, Relaxed);
    }
}

fn note_drop(tag: u32) {
    if (tag as usize) < MAX_TAGS {
        DROPS[tag as usize].fetch_add(1, Relaxed);
        DROP_AT[tag as usize].store(crate::wakers::now(), Relaxed);
    } else if tag < UNTRACKED {
        BAD_TAG.fetch_add(1, Relaxed);
    }
}
fn note_clone(tag: u32) {
    if (tag as usize) < MAX_TAGS {
        CLONES[tag as usize].fetch_add(1, Relaxed);
    } else {
        BAD_TAG.fetch_add(1, Relaxed);
    }
}

pub trait Payload: Clone + Send + 'static {
    const ALLOCATES: bool;
    const NAME: &'static str;
    /// zero sized: carries no identity, only the global creation / drop counters exist
    const ANON: bool = false;
    fn new(tag: u32) -> Self;
    fn tag(&self) -> u32;
}

/// Heap free payload. `Drop` and `Clone` are counted per tag.
#[derive(Debug)]
pub struct Val {
    tag: u32,
    /// canary: detects a payload which is read from uninitialised / stale memory
    check: u32,
}

impl Payload for Val {
    const ALLOCATES: bool = false;
    const NAME: &'static str = "Val";
    fn new(tag: u32) -> Self {
        Val {
            tag,
            check: !tag ^ 0x5A5A_0F0F,
        }
    }
    fn tag(&self) -> u32 {
        if self.check != !self.tag ^ 0x5A5A_0F0F {
            BAD_TAG.fetch_add(1, Relaxed);
        }
        self.tag
    }
}

impl Clone for Val {
    fn clone(&self) -> Self {
        note_clone(self.tag());
        Val {
            tag: self.tag,
            check: self.check,
        }
    }
}

impl Drop for Val {
    fn drop(&mut self) {
        note_drop(self.tag());
    }
}

/// Payload which owns a heap block: a double drop is a double free and a
/// use after move is a use after free for ASan / memcheck / Miri.
#[derive(Debug)]
pub struct BVal {
    b: Box<u32>,
}

impl Payload for BVal {
    const ALLOCATES: bool = true;
    const NAME: &'static str = "BVal";
    fn new(tag: u32) -> Self {
        BVal { b: Box::new(tag) }
    }
    fn tag(&self) -> u32 {
        *self.b
    }
}

impl Clone for BVal {
    fn clone(&self) -> Self {
        note_clone(*self.b);
        BVal {
            b: Box::new(*self.b),
        }
    }
}

impl Drop for BVal {
    fn drop(&mut self) {
        note_drop(*self.b);
    }
}

/// Zero sized payload (a unit struct with a `Drop` impl): collections special-case such types
/// (`VecDeque::<ZST>::capacity()` is `usize::MAX`). No identity; drops are counted globally and the
/// monitors look at the difference across single calls.
#[derive(Debug)]
pub struct Zst;
static ZST_DROPS: AtomicU64 = AtomicU64::new(0);
pub fn zst_drops() -> u64 {
    ZST_DROPS.load(Relaxed)
}
impl Payload for Zst {
    const ALLOCATES: bool = false;
    const NAME: &'static str = "Zst";
    const ANON: bool = true;
    fn new(_tag: u32) -> Self {
        Zst
    }
    fn tag(&self) -> u32 {
        UNTRACKED
    }
}
impl Clone for Zst {
    fn clone(&self) -> Self {
        Zst
    }
}
impl Drop for Zst {
    fn drop(&mut self) {
        ZST_DROPS.fetch_add(1, Relaxed);
    }
}
