//! Helpers for the C16 probe programs (DESIGN §4.C16).
//!
//! `cross` / `share` / `need_unpin` carry the trait bound whose (non-)satisfaction
//! the probe is about. The exploit bodies are written so that, *if* rustc accepts
//! the program, running it performs the forbidden cross-thread access or the
//! move-after-poll, which Miri reports (data race / dangling reference) and the
//! `Affine` monitor counts.

use std::cell::Cell;
use std::future::Future;
use std::marker::PhantomData;
use std::pin::Pin;
use std::rc::Rc;
use std::sync::atomic::{AtomicU64, Ordering};
use std::task::{Context, Poll, RawWaker, RawWakerVTable, Waker};
use std::thread::ThreadId;

pub use futures_core::future::FusedFuture;
pub use futures_intrusive::buffer::{ArrayBuf, RingBuf};
pub use lock_api::RawMutex;
pub type Pl = parking_lot::RawMutex;

/// Extracts the crate's unexported NoopLock.
pub trait LockOf {
    type L: RawMutex;
}
impl<M: RawMutex, T> LockOf for futures_intrusive::sync::GenericMutex<M, T> {
    type L = M;
}
pub type Noop = <futures_intrusive::sync::LocalMutex<()> as LockOf>::L;

static VT: RawWakerVTable = RawWakerVTable::new(|p| RawWaker::new(p, &VT), |_| {}, |_| {}, |_| {});
pub fn noop_waker() -> Waker {
    unsafe { Waker::from_raw(RawWaker::new(std::ptr::null(), &VT)) }
}
pub fn poll_once<F: Future>(f: Pin<&mut F>) -> Poll<F::Output> {
    let w = noop_waker();
    let mut cx = Context::from_waker(&w);
    f.poll(&mut cx)
}

/// Foreign-thread accesses observed by `Affine` payloads.
pub static FOREIGN_ACCESSES: AtomicU64 = AtomicU64::new(0);

/// A `!Send + !Sync` payload that remembers its creating thread and counts every
/// clone / deref / drop that happens on another thread.
pub struct Affine {
    home: ThreadId,
    rc: Rc<Cell<u32>>,
    _p: PhantomData<*mut ()>,
}
impl Affine {
    pub fn new() -> Self {
        Affine { home: std::thread::current().id(), rc: Rc::new(Cell::new(0)), _p: PhantomData }
    }
    fn touch(&self) {
        if std::thread::current().id() != self.home {
            FOREIGN_ACCESSES.fetch_add(1, Ordering::Relaxed);
        }
        // non-atomic read-modify-write: a data race if two threads get here
        self.rc.set(self.rc.get() + 1);
    }
    pub fn poke(&self) {
        self.touch()
    }
}
impl Clone for Affine {
    fn clone(&self) -> Self {
        self.touch();
        Affine { home: self.home, rc: self.rc.clone(), _p: PhantomData }
    }
}
impl Drop for Affine {
    fn drop(&mut self) {
        self.touch()
    }
}

thread_local! {
    /// Thread-local statistics shared with every `RcBuf` created on this thread.
    pub static LOCAL_STATS: Rc<Cell<u64>> = Rc::new(Cell::new(0));
}

/// A user supplied ring buffer that is `!Send`: it shares a thread-local `Rc`.
pub struct RcBuf<T> {
    inner: std::collections::VecDeque<T>,
    cap: usize,
    stats: Rc<Cell<u64>>,
}
impl<T> RingBuf for RcBuf<T> {
    type Item = T;
    fn new() -> Self {
        Self::with_capacity(2)
    }
    fn with_capacity(cap: usize) -> Self {
        RcBuf { inner: std::collections::VecDeque::with_capacity(cap), cap, stats: LOCAL_STATS.with(|s| s.clone()) }
    }
    fn capacity(&self) -> usize {
        self.cap
    }
    fn len(&self) -> usize {
        self.inner.len()
    }
    fn can_push(&self) -> bool {
        self.inner.len() < self.cap
    }
    fn push(&mut self, item: T) {
        // non-atomic update of a counter that the creating thread also uses
        self.stats.set(self.stats.get() + 1);
        self.inner.push_back(item)
    }
    fn pop(&mut self) -> T {
        self.stats.set(self.stats.get() + 1);
        self.inner.pop_front().unwrap()
    }
}

/// The creating thread keeps using its thread-local statistics while the other
/// thread works: this is the second access of the race.
pub fn churn_local_stats(n: u32) {
    LOCAL_STATS.with(|s| {
        for _ in 0..n {
            s.set(s.get() + 1);
            std::thread::yield_now();
        }
    });
}

/// Moves `f` to another thread, polls it there a few times and drops it there,
/// while `meanwhile` runs on the current thread.
pub fn cross<F: Future + Send>(f: F, meanwhile: impl FnOnce()) {
    std::thread::scope(|s| {
        s.spawn(move || {
            let mut f = Box::pin(f);
            for _ in 0..3 {
                if poll_once(f.as_mut()).is_ready() {
                    break;
                }
                std::thread::yield_now();
            }
        });
        meanwhile();
    });
}

/// Like `cross`, and hands the output of the future to `there` on the other thread.
pub fn cross_with<F: Future + Send>(f: F, there: impl FnOnce(F::Output) + Send, meanwhile: impl FnOnce()) {
    std::thread::scope(|s| {
        s.spawn(move || {
            let mut f = Box::pin(f);
            for _ in 0..3 {
                if let Poll::Ready(out) = poll_once(f.as_mut()) {
                    there(out);
                    break;
                }
                std::thread::yield_now();
            }
        });
        meanwhile();
    });
}

/// Moves any value to another thread and runs `there` on it.
pub fn send_to<T: Send>(t: T, there: impl FnOnce(T) + Send, meanwhile: impl FnOnce()) {
    std::thread::scope(|s| {
        s.spawn(move || there(t));
        meanwhile();
    });
}

/// Uses `t` from a second thread while the current thread uses it too.
pub fn share<T: Sync>(t: &T, use_it: impl Fn(&T) + Sync) {
    std::thread::scope(|s| {
        s.spawn(|| {
            for _ in 0..4 {
                use_it(t);
                std::thread::yield_now();
            }
        });
        for _ in 0..4 {
            use_it(t);
            std::thread::yield_now();
        }
    });
}

/// Polls once, moves the future to a new address, polls again and drops it.
pub fn relocate<F: Future + Unpin>(mut f: F, between: impl FnOnce()) {
    let _ = poll_once(Pin::new(&mut f));
    let mut moved = Box::new(f); // the move
    between();
    let _ = poll_once(Pin::new(&mut *moved));
    drop(moved);
}

pub fn report() {
    let n = FOREIGN_ACCESSES.load(Ordering::Relaxed);
    if n > 0 {
        eprintln!("AFFINITY-MONITOR: {} accesses to a !Send payload from a foreign thread", n);
        std::process::exit(7);
    }
}
