"""Check driver: builds the harness variants from /repo's current working tree,
shards workloads over the cores, merges what the monitors observed, matches
known findings, writes evidence, prints the verdict (DESIGN §3.5)."""
import json, os, re, subprocess, sys, time, shutil, hashlib
from concurrent.futures import ThreadPoolExecutor

VERIF = os.path.dirname(os.path.dirname(os.path.abspath(__file__)))
REPO = "/repo"
HARNESS = os.path.join(VERIF, "harness")
TARGET = os.path.join(VERIF, "target")
WORK = os.path.join(VERIF, "work")
REPLAYS = os.path.join(VERIF, "replays")
EVIDENCE = os.environ.get("FIV_EVIDENCE_DIR") or os.path.join(VERIF, "evidence")  # validation runs against seeded changes write elsewhere
CORES = max(2, min(16, os.cpu_count() or 4))
GUARD = "--cfg futures_intrusive_verif"
HOST = "x86_64-unknown-linux-gnu"

import plan  # noqa: E402  (the per-property workload plan)

# Validation runs (seeded changes, cross-talk matrix) may point the machinery at a scratch copy of
# the repository instead of /repo: FIV_REPO=<dir>. The registered checks never set it.
ALT_REPO = os.environ.get("FIV_REPO")
if ALT_REPO:
    tag = hashlib.sha1(ALT_REPO.encode()).hexdigest()[:10]
    ALT = os.path.join(os.environ.get("FIV_ALT_DIR", "/tmp"), f"fiv-alt-{tag}")
    for sub in ("harness", "probes"):
        dst = os.path.join(ALT, sub)
        shutil.rmtree(dst, ignore_errors=True)
        shutil.copytree(os.path.join(VERIF, sub), dst, ignore=shutil.ignore_patterns("target"))
        ct = os.path.join(dst, "Cargo.toml")
        txt = open(ct).read().replace('path = "/repo"', f'path = "{ALT_REPO}"')
        open(ct, "w").write(txt)
    HARNESS = os.path.join(ALT, "harness")
    TARGET = os.path.join(ALT, "target")
    WORK = os.path.join(ALT, "work")
    REPLAYS = os.path.join(ALT, "replays")
    EVIDENCE = os.path.join(ALT, "evidence")


def log(*a):
    print(*a, file=sys.stderr, flush=True)


def base_env():
    env = dict(os.environ)
    env["CARGO_NET_OFFLINE"] = "true"
    env.pop("RUSTC_WRAPPER", None)
    return env


# --------------------------------------------------------------------------- builds
VARIANTS = {
    # name: (toolchain, rustflags, extra cargo args, binary sub path)
    "release": ("", GUARD, [], "release/fiv"),
    "dbg": ("", GUARD + " -C debug-assertions=on", [], "release/fiv"),
    "asan": ("+nightly", GUARD + " -Zsanitizer=address -Cforce-frame-pointers=yes", ["--target", HOST], HOST + "/release/fiv"),
    "tsan": ("+nightly", GUARD + " -Zsanitizer=thread -Cforce-frame-pointers=yes", ["--target", HOST, "-Zbuild-std"], HOST + "/release/fiv"),
}


def binary(variant):
    return os.path.join(TARGET, variant, VARIANTS[variant][3])


_built = set()


def build(variant, package="fiv"):
    """(Re)builds a variant; cargo notices changes of /repo through the path dependency."""
    if variant in _built:
        return True, ""
    if variant == "miri":
        ok, out = miri_warmup()
        if ok:
            _built.add(variant)
        return ok, out
    tc, flags, extra, _ = VARIANTS[variant]
    env = base_env()
    env["RUSTFLAGS"] = flags
    env["CARGO_TARGET_DIR"] = os.path.join(TARGET, variant)
    cmd = ["cargo"] + ([tc] if tc else []) + ["build", "--release", "--offline"] + extra
    t0 = time.time()
    p = subprocess.run(cmd, cwd=HARNESS, env=env, stdout=subprocess.PIPE, stderr=subprocess.STDOUT, text=True)
    log(f"[build] {variant}: rc={p.returncode} {time.time()-t0:.1f}s")
    if p.returncode == 0:
        _built.add(variant)
    return p.returncode == 0, p.stdout[-6000:]


def miri_env(seed=0, extra_flags=""):
    env = base_env()
    env["RUSTFLAGS"] = GUARD
    env["CARGO_TARGET_DIR"] = os.path.join(TARGET, "miri")
    env["MIRIFLAGS"] = f"-Zmiri-seed={seed} -Zmiri-disable-isolation {extra_flags}".strip()
    return env


def miri_cmd(args):
    return ["cargo", "+nightly", "miri", "run", "--offline", "--quiet", "--"] + args


def miri_warmup():
    t0 = time.time()
    p = subprocess.run(miri_cmd(["union"]), cwd=HARNESS, env=miri_env(), stdout=subprocess.PIPE, stderr=subprocess.STDOUT, text=True)
    log(f"[build] miri: rc={p.returncode} {time.time()-t0:.1f}s")
    return p.returncode == 0, p.stdout[-6000:]


# --------------------------------------------------------------------------- running shards
class ShardResult:
    def __init__(self):
        self.rc = None
        self.stdout = ""
        self.stderr = ""
        self.summary = None
        self.timed_out = False
        self.wall = 0.0
        self.name = ""
        self.out_path = None
        self.cmd = None


def run_proc(name, cmd, env, cwd, timeout, out_path=None):
    r = ShardResult()
    r.name, r.cmd, r.out_path = name, cmd, out_path
    t0 = time.time()
    try:
        p = subprocess.run(cmd, cwd=cwd, env=env, stdout=subprocess.PIPE, stderr=subprocess.PIPE, text=True, timeout=timeout, errors="replace")
        r.rc, r.stdout, r.stderr = p.returncode, p.stdout, p.stderr
    except subprocess.TimeoutExpired as e:
        r.timed_out = True
        r.stdout = (e.stdout or b"").decode(errors="replace") if isinstance(e.stdout, bytes) else (e.stdout or "")
        r.stderr = (e.stderr or b"").decode(errors="replace") if isinstance(e.stderr, bytes) else (e.stderr or "")
    r.wall = time.time() - t0
    if out_path and os.path.exists(out_path):
        try:
            r.summary = json.load(open(out_path))
        except Exception as e:  # noqa
            r.summary = None
    if r.summary is None:
        for line in r.stdout.splitlines():
            if line.startswith("SUMMARY "):
                try:
                    r.summary = json.loads(line[8:])
                except Exception:
                    pass
    return r


SAN_PATTERNS = [
    (re.compile(r"error: Undefined Behavior: (.*)"), "miri-ub"),
    (re.compile(r"error: the evaluated program deadlocked"), "miri-deadlock"),
    (re.compile(r"error: memory leaked: (.*)"), "miri-leak"),
    (re.compile(r"error: unsupported operation: (.*)"), "miri-unsupported"),
    (re.compile(r"ERROR: AddressSanitizer: (\S+)"), "asan"),
    (re.compile(r"ERROR: LeakSanitizer: (.*)"), "lsan"),
    (re.compile(r"WARNING: ThreadSanitizer: (.*?) \("), "tsan"),
    (re.compile(r"ERROR SUMMARY: ([1-9]\d*) errors"), "memcheck"),
]


def sanitizer_reports(text):
    reps = []
    for pat, kind in SAN_PATTERNS:
        for m in pat.finditer(text):
            what = m.group(1) if m.groups() else ""
            reps.append((kind, what.strip()[:200]))
    return reps


def report_belongs(prop, text, leg):
    """Which memory-class property does a sanitizer / interpreter report belong to?
    C01 owns everything in the crate's wait-queue code (and is the default); C02 only a race on the
    data guarded by the mutex (the access sits in the harness's critical section); C08 only reports
    about payload ownership (double free / use after free of a payload box); C19 / C20 run the data
    structures in isolation, so every report of their legs is theirs."""
    if prop == "C01":
        return True
    if prop == "C02":
        # only a race on the data the mutex guards: both accesses sit in the harness's critical section
        # (`*g += 1` in conc/workloads.rs), none of them inside the crate or on one of its types
        if "wl_mutex" not in text or "data race" not in text.lower():
            return False
        m = re.search(r"Undefined Behavior: (Data race[^\n]*)\n(?:.*\n){0,3}?\s*--> ([^\n]*)", text)
        if m:  # Miri
            return "futures_intrusive::" not in m.group(1) and "workloads.rs" in m.group(2)
        tops = re.findall(r"^\s*#0 ([^\n]*)", text, flags=re.M)[:2]  # ThreadSanitizer: innermost frame of both accesses
        return len(tops) == 2 and all("futures_intrusive" not in t and "/repo/src/" not in t for t in tops)
    if prop == "C08":
        return any(w in text for w in ("BVal", "payload.rs", "double-free", "attempting double-free"))
    if prop in ("C19", "C20"):
        return any(leg["name"].startswith(x) for x in ("ringbuf", "list", "heap"))
    return True


def first_repo_frame(text):
    m = re.search(r"(/repo/src/[\w/]+\.rs:\d+)", text)
    return m.group(1) if m else ""


# --------------------------------------------------------------------------- one leg
def leg_jobs(prop, tier, seed, leg, workdir):
    """Builds the variant and returns the shard jobs of a leg (or a build failure result)."""
    variant = leg.get("variant", "release")
    ok, out = build(variant)
    if not ok:
        r = ShardResult()
        r.name = f"build-{variant}"
        r.rc = 99
        r.stderr = out
        return [], [r]
    shards = leg.get("shards", CORES)
    timeout = leg.get("timeout", 900)
    jobs = []
    for sh in range(shards):
        sseed = seed * 100003 + sh * 7919 + leg.get("seed_offset", 0)
        name = f"{leg['name']}-{sh}"
        out_path = os.path.join(workdir, name + ".json")
        args = [a.format(seed=sseed, shard=sh, shards=shards, prop=prop, tier=tier, out=out_path, replays=REPLAYS) for a in leg["args"]]
        if leg.get("writes_out", True):
            args += ["--out", out_path]
        if variant == "miri":
            cmd = miri_cmd(args)
            env = miri_env(sseed % 100000, leg.get("miriflags", ""))
            cwd = HARNESS
        elif leg.get("valgrind"):
            cmd = ["valgrind", "--error-exitcode=87", "--quiet", "--leak-check=no"] + [binary("release")] + args
            env = base_env()
            cwd = VERIF
        else:
            cmd = [binary(variant)] + args
            env = base_env()
            cwd = VERIF
            if variant == "asan":
                env["ASAN_OPTIONS"] = "halt_on_error=1:abort_on_error=0:exitcode=86:detect_leaks=%d:symbolize=1" % (1 if leg.get("leaks", True) else 0)
                env["ASAN_SYMBOLIZER_PATH"] = shutil.which("llvm-symbolizer-14") or shutil.which("llvm-symbolizer") or ""
            if variant == "tsan":
                env["TSAN_OPTIONS"] = "halt_on_error=1:exitcode=66:second_deadlock_stack=1"
        for k, v in leg.get("env", {}).items():
            env[k] = v
        jobs.append((name, cmd, env, cwd, timeout, out_path if leg.get("writes_out", True) else None))
    return jobs, []


def run_all_legs(prop, tier, seed, legs, workdir):
    """Runs the shards of all legs in one pool of CORES workers. Returns {leg index: [ShardResult]}."""
    per_leg = {}
    submitted = []
    with ThreadPoolExecutor(max_workers=CORES) as ex:
        for li, leg in enumerate(legs):
            jobs, fails = leg_jobs(prop, tier, seed, leg, workdir)
            per_leg[li] = list(fails)
            w = leg.get("weight", 1)
            for j in jobs:
                submitted.append((li, ex.submit(run_proc, *j)))
        for li, f in submitted:
            per_leg[li].append(f.result())
    return per_leg


# --------------------------------------------------------------------------- known findings
def load_known():
    p = os.path.join(VERIF, "known_findings.json")
    if not os.path.exists(p):
        return []
    return json.load(open(p)).get("findings", [])


def match_known(prop, signature, known):
    for k in known:
        if k.get("property") == prop and k.get("status") == "open" and re.search(k["signature"], signature):
            return k
    return None


# --------------------------------------------------------------------------- merge + verdict
def union_count(files):
    files = [f for f in files if os.path.exists(f)]
    if not files:
        return 0
    p = subprocess.run([binary("release"), "union"] + files, stdout=subprocess.PIPE, text=True)
    try:
        return int(p.stdout.strip())
    except Exception:
        return 0


def check_property(prop, tier, seed):
    t0 = time.time()
    legs = plan.legs(prop, tier)
    if not legs:
        print(f"INCONCLUSIVE property={prop} reason=no-check-registered")
        return 3
    workdir = os.path.join(WORK, f"{prop}-{tier}")
    shutil.rmtree(workdir, ignore_errors=True)
    os.makedirs(workdir, exist_ok=True)
    os.makedirs(REPLAYS, exist_ok=True)
    os.makedirs(EVIDENCE, exist_ok=True)
    ev_path = os.path.join(EVIDENCE, f"{prop}.json")
    if os.path.exists(ev_path):
        os.remove(ev_path)
    known = load_known()

    violations = []      # dicts: signature, replay, text
    known_hits = []
    inconclusive = []
    notes = []
    agg = {"evals": 0, "nonvac": 0, "events": 0, "episodes": 0, "preds": {}, "kinds": {}, "counters": {}, "samples": [], "legs": [], "states": 0, "transitions": 0}
    hash_files = []
    state_files = []
    memclass = prop in plan.MEMORY_CLASS

    cov_legs = [l for l in legs if l.get("kind") == "coverage"]
    legs = [l for l in legs if l.get("kind") != "coverage"]
    special = [l for l in legs if l.get("kind") == "probes"]
    legs = [l for l in legs if l.get("kind") != "probes"]
    for l in special:
        import probes
        res = probes.run(prop, tier, seed, workdir, REPLAYS)
        violations += res["violations"]
        inconclusive += res["inconclusive"]
        notes += res["notes"]
        for k, v in res["agg"].items():
            if isinstance(v, (int, float)) and not k.startswith("x_"):
                agg[k] = agg.get(k, 0) + v
            elif k == "samples":
                agg["samples"] += v
            else:
                agg[k] = v
        agg["legs"].append({"name": "probe-matrix", "variant": "rustc + miri", "shards": 1, "events": res["events"], "nonvac": res["agg"]["nonvac"]})
    all_results = run_all_legs(prop, tier, seed, legs, workdir)
    for li, leg in enumerate(legs):
        lt0 = time.time()
        results = all_results[li]
        leginfo = {"name": leg["name"], "variant": leg.get("variant", "release"), "shards": len(results), "events": 0, "wall_s": 0.0, "reports": 0, "nonvac": 0}
        for r in results:
            text = r.stdout + "\n" + r.stderr
            reps = sanitizer_reports(text) if leg.get("variant", "release") != "release" or leg.get("valgrind") else []
            if r.timed_out:
                inconclusive.append(f"{r.name}: watchdog fired after {r.wall:.0f}s")
                continue
            s = r.summary
            custom = leg.get("parser")
            if custom:
                # non-hist legs (probes, conc, ds) bring their own result parser
                res = custom(prop, r, leg)
                violations += res.get("violations", [])
                inconclusive += res.get("inconclusive", [])
                notes += res.get("notes", [])
                for k, v in res.get("agg", {}).items():
                    if isinstance(v, (int, float)):
                        agg[k] = agg.get(k, 0) + v
                    elif isinstance(v, dict):
                        d = agg.setdefault(k, {})
                        for kk, vv in v.items():
                            d[kk] = d.get(kk, 0) + vv
                    elif isinstance(v, list):
                        agg.setdefault(k, [])
                        agg[k] += v
                leginfo["events"] += res.get("events", 0)
                leginfo["nonvac"] += res.get("agg", {}).get("nonvac", 0)
                if res.get("hash_file"):
                    hash_files.append(res["hash_file"])
                continue
            # sanitizer / interpreter reports
            real_reps = [x for x in reps if x[0] != "miri-unsupported"]
            # an abandoned (forgotten) history leaks on purpose: a leak report next to a failed
            # predicate of another property is a consequence of that failure, not a finding
            if real_reps and all(x[0] in ("miri-leak", "lsan") for x in real_reps) and ("NOTE other-property" in text or "VIOLATION property=" in text or "FIV-ABANDONED-HISTORIES" in text):
                notes.append(f"leak report ignored in {r.name}: history abandoned after a predicate failure")
                real_reps = []
                reps = []
                if r.summary is not None:
                    r.rc = 0  # the only thing the sanitizer had to say was the expected leak
            if real_reps:
                leginfo["reports"] += len(real_reps)
                frame = first_repo_frame(text)
                sig = f"sanitizer:{leg['name']}:{real_reps[0][0]}:{real_reps[0][1]}:{frame}"
                rp = os.path.join(REPLAYS, f"{prop}-{r.name}-sanitizer.log")
                open(rp, "w").write("CMD: " + " ".join(r.cmd) + "\n\n" + text[-60000:])
                if memclass and report_belongs(prop, text, leg):
                    violations.append({"signature": sig, "replay": rp, "text": f"{real_reps[0][0]}: {real_reps[0][1]} {frame}"})
                else:
                    notes.append(f"sanitizer report while checking {prop} (belongs to C01): {sig}")
                    inconclusive.append(f"{r.name}: run aborted by a sanitizer report that belongs to another property")
                continue
            if any(x[0] == "miri-unsupported" for x in reps):
                inconclusive.append(f"{r.name}: miri unsupported operation: {reps[0][1]}")
                continue
            if r.rc is not None and r.rc < 0 and memclass and prop in ("C01", "C19", "C20", "C08"):
                # the native process died from a signal while running safe-API histories:
                # memory has been corrupted (this is what a dangling waiter looks like without a sanitizer)
                rp = os.path.join(REPLAYS, f"{prop}-{r.name}-crash.log")
                open(rp, "w").write("CMD: " + " ".join(r.cmd) + f"\nexit: signal {-r.rc}\n\n" + text[-20000:])
                violations.append({"signature": f"crash:{leg['name']}:signal={-r.rc}", "replay": rp, "text": f"process killed by signal {-r.rc} while executing contract-respecting histories"})
                continue
            if s is None and (r.rc is None or r.rc not in (0, 1, 3)):
                # the shard died (signal, abort) before it could write its summary: violations of this property
                # that it had already recorded (announced at once, unshrunk witness on disk) still count
                early = [l for l in text.splitlines() if l.startswith(f"EARLY-VIOLATION property={prop} ")]
                for l in early[:3]:
                    m = re.match(r"EARLY-VIOLATION property=\S+ replay=(\S+) sig=(.*)$", l)
                    if m:
                        violations.append({"signature": m.group(2), "replay": m.group(1), "text": "recorded before the process died (rc=%s); unshrunk history in the witness file" % r.rc})
                if early:
                    continue
            if s is not None and s.get("harness_problems"):
                inconclusive.append(f"{r.name}: {s['harness_problems'][0]}")
            if r.rc not in (0, 1, 3) or s is None:
                inconclusive.append(f"{r.name}: harness error rc={r.rc} stderr={r.stderr[-300:]!r}")
                continue
            # --- a hist summary
            leginfo["events"] += s.get("events", 0)
            agg["events"] += s.get("events", 0)
            agg["episodes"] += s.get("episodes", 0)
            agg["states"] = max(agg["states"], s.get("states", 0))
            agg["transitions"] = max(agg["transitions"], s.get("transitions", 0))
            ps = s.get("props", {}).get(prop)
            if ps:
                agg["evals"] += ps["evals"]
                agg["nonvac"] += ps["nonvac"]
                leginfo["nonvac"] += ps["nonvac"]
                for pn, (e, nv) in ps["preds"].items():
                    a = agg["preds"].setdefault(pn, [0, 0])
                    a[0] += e
                    a[1] += nv
            for k, v in s.get("kinds", {}).items():
                agg["kinds"][k] = agg["kinds"].get(k, 0) + v
            for k, v in s.get("counters", {}).items():
                agg["counters"][k] = agg["counters"].get(k, 0) + v
            if len(agg["samples"]) < 3 and s.get("samples"):
                agg["samples"].append(s["samples"][0])
            b = s.get("bfs", {})
            if b.get("configs"):
                bf = agg.setdefault("bfs", {"states": 0, "configs": 0, "exhausted_configs": 0, "max_depth": 0})
                bf["states"] += b["states"]
                bf["configs"] += b["configs"]
                bf["exhausted_configs"] += b["exhausted_configs"]
                bf["max_depth"] = max(bf["max_depth"], b["max_depth"])
            if r.out_path:
                hf = f"{r.out_path}.{prop}.hashes"
                if os.path.exists(hf):
                    hash_files.append(hf)
                sf = f"{r.out_path}.states.hashes"
                if os.path.exists(sf):
                    state_files.append(sf)
            for v in s.get("violations", []):
                if v["prop"] != prop:
                    notes.append(f"other-property={v['prop']} predicate={v['pred']} (not part of this check)")
                    continue
                last = v["events"][-1].split("(")[0] if v.get("events") else "?"
                sig = f"hist:{s['driver']}:{v['pred']}:last={last}:{v['cfg']}"
                violations.append({"signature": sig, "replay": v["replay"], "text": f"{v['pred']}: {v['detail']} :: {'; '.join(v['events'])}"})
            for k, v in s.get("other_fails", {}).items():
                notes.append(f"other-property={k} count={v['n']}")
        leginfo["wall_s"] = round(max([r.wall for r in results] or [0.0]), 1)
        agg["legs"].append(leginfo)

    for l in cov_legs:
        # line coverage of /repo/src reached by the workloads: reported, never a verdict
        try:
            p = subprocess.run(["python3", os.path.join(VERIF, "lib", "coverage.py")], stdout=subprocess.PIPE, stderr=subprocess.STDOUT, text=True, timeout=3000)
            cj = os.path.join(VERIF, "evidence", "coverage.json")
            if p.returncode == 0 and os.path.exists(cj):
                c = json.load(open(cj))
                agg["x_line_coverage_of_repo_src"] = {k: f"{v['covered']}/{v['lines']} ({v['percent']}%)" for k, v in c["files"].items()}
        except Exception as e:  # noqa
            notes.append(f"coverage report failed: {e}")

    # ------------------------------------------------------------------ verdict
    for n in sorted(set(notes))[:20]:
        log("NOTE", n)
    real = []
    for v in violations:
        k = match_known(prop, v["signature"], known)
        if k:
            known_hits.append((k, v))
        else:
            real.append(v)
    floor = plan.floor(prop, tier)
    distinct = union_count(hash_files) + agg.get("distinct_extra", 0)
    states_union = union_count(state_files) if state_files else agg.get("states", 0)
    for f in hash_files + state_files:   # only needed for the unions above; they are large
        try:
            os.remove(f)
        except OSError:
            pass
    wall = time.time() - t0
    if not real and not inconclusive and agg["nonvac"] < floor:
        inconclusive.append(f"only {agg['nonvac']} non-vacuous oracle evaluations (floor {floor})")
    evidence = {
        "property_id": prop,
        "tier": tier,
        "seed": seed,
        "level": plan.LEVEL.get(prop, "exploration"),
        "coverage": {
            "evaluations": max(1, int(agg["evals"])),
            "distinct_nontrivial": int(distinct),
            "rule": plan.RULE.get(prop, plan.DEFAULT_RULE),
            "samples": agg["samples"][:5] or ["<no sample recorded>"],
            "explanation": plan.EXPLANATION.get(prop, ""),
            "nonvacuous_evaluations": int(agg["nonvac"]),
            "events_executed": int(agg["events"]),
            "histories": int(agg["episodes"]),
            "distinct_abstract_states": int(states_union),
            "distinct_state_event_transitions_max_per_shard": int(agg["transitions"]),
            "predicates": {k: {"evaluations": v[0], "nonvacuous": v[1]} for k, v in sorted(agg["preds"].items())},
            "event_kinds": agg["kinds"],
            "counters": {k: v for k, v in sorted(agg["counters"].items())[:120]},
            "fixpoint_exploration": agg.get("bfs"),
            "legs": agg["legs"],
            "inconclusive": inconclusive[:10],
            "known_findings_hit": [k["signature"] for k, _ in known_hits],
            **{k: v for k, v in agg.items() if k.startswith("x_")},
        },
        "assumptions": plan.ASSUMPTIONS,
        "wall_s": round(wall, 1),
        "violations": len(real),
    }
    if not evidence["coverage"]["explanation"]:
        del evidence["coverage"]["explanation"]
    json.dump(evidence, open(ev_path, "w"), indent=1)

    seen = set()
    for k, v in known_hits:
        if k["signature"] in seen:
            continue
        seen.add(k["signature"])
        print(f"KNOWN-FINDING: property={prop} {k['description']}")
    if real:
        shown = set()
        for v in real:
            if v["signature"] in shown:
                continue
            shown.add(v["signature"])
            print(f"VIOLATION property={prop} replay={v['replay']}")
            print(f"  signature: {v['signature']}")
            print(f"  {v['text'][:1500]}")
        return 1
    if inconclusive:
        print(f"INCONCLUSIVE property={prop} reason={inconclusive[0]}")
        for i in inconclusive[1:5]:
            log("  also:", i)
        return 3
    print(f"HELD property={prop} tier={tier} seed={seed}: {agg['nonvac']} non-vacuous oracle evaluations over {agg['events']} events, "
          f"{distinct} distinct (state,event,predicate) cases, {states_union} abstract states, {wall:.0f}s")
    return 0


def replay(prop, path):
    if path.endswith(".witness"):
        ok, out = build("release")
        if not ok:
            print(out)
            return 3
        p = subprocess.run([binary("release"), "replay", path], cwd=VERIF)
        return p.returncode
    print(open(path).read()[:20000])
    print("(sanitizer / threaded witnesses are logs: re-run the CMD line at the top of the file)")
    return 0


def main(argv):
    if not argv:
        print(__doc__)
        return 2
    if argv[0] == "--build":
        rc = 0
        for v in argv[1:] or ["release"]:
            ok, out = build(v)
            if not ok:
                print(out)
                rc = 1
        return rc
    prop = argv[0]
    if len(argv) >= 3 and argv[1] == "--replay":
        return replay(prop, argv[2])
    tier = argv[1] if len(argv) > 1 else os.environ.get("VERIF_TIER", "quick")
    if tier not in ("quick", "thorough"):
        tier = "quick"
    try:
        seed = int(os.environ.get("VERIF_SEED", "1"))
    except ValueError:
        seed = 1
    return check_property(prop, tier, seed)
