#!/usr/bin/env python3
"""Confirms a seeded change produced by a sub-agent and runs the checks against it.

  lib/seeded.py confirm <worktree> <outdir> <name>   # e.g. /tmp/mut/C06 /tmp/mut/C06/OUT/m1 C06-m1
      1. demo passes on the clean worktree, 2. patch applies, 3. the existing suite passes with it,
      4. demo fails with it. On success the change is stored as /verif/seeded/<name>/.
  lib/seeded.py run <name> [quick|thorough] [extra property ids…]
      applies /verif/seeded/<name>/patch.diff to /repo, runs ./check <property> (+ extras), reverts.
"""
import json, os, shutil, subprocess, sys, time

VERIF = os.path.dirname(os.path.dirname(os.path.abspath(__file__)))
SEEDED = os.path.join(VERIF, "seeded")
ENV = dict(os.environ, CARGO_NET_OFFLINE="true", FIV_EVIDENCE_DIR="/tmp/fiv-seeded-evidence")


def sh(cmd, cwd, timeout=3600):
    p = subprocess.run(cmd, cwd=cwd, shell=True, executable='/bin/bash', stdout=subprocess.PIPE, stderr=subprocess.STDOUT, text=True, env=ENV, timeout=timeout)
    return p.returncode, p.stdout


def confirm(wt, out, name):
    log = []
    def step(desc, cmd, want_ok):
        rc, o = sh(cmd, wt)
        ok = (rc == 0) == want_ok
        log.append({"step": desc, "cmd": cmd, "rc": rc, "as_expected": ok, "tail": o[-400:]})
        print(("ok   " if ok else "FAIL ") + desc, flush=True)
        return ok
    sh("git checkout -- . && rm -f tests/demo_mutant.rs", wt)
    shutil.copy(os.path.join(out, "demo.rs"), os.path.join(wt, "tests", "demo_mutant.rs"))
    good = step("demo passes on the unmodified crate", "cargo test --offline --test demo_mutant 2>&1 | tail -15; exit ${PIPESTATUS[0]}", True)
    good &= step("patch applies", f"git apply --check {out}/patch.diff && git apply {out}/patch.diff", True)
    if good:
        good &= step("demo fails with the change", "cargo test --offline --test demo_mutant 2>&1 | tail -15; exit ${PIPESTATUS[0]}", False)
        os.remove(os.path.join(wt, "tests", "demo_mutant.rs"))
        good &= step("existing suite (221 tests + doctests) passes with the change", "cargo test --offline 2>&1 | grep -E 'test result|FAILED|panicked|error' | tail -15; exit ${PIPESTATUS[0]}", True)
    sh("git checkout -- . && rm -f tests/demo_mutant.rs", wt)
    if not good:
        print("NOT CONFIRMED", name)
        return 1
    d = os.path.join(SEEDED, name)
    os.makedirs(d, exist_ok=True)
    shutil.copy(os.path.join(out, "patch.diff"), d)
    shutil.copy(os.path.join(out, "demo.rs"), d)
    meta = json.load(open(os.path.join(out, "meta.json")))
    meta["confirmed"] = log
    meta["confirmed_at"] = time.strftime("%Y-%m-%dT%H:%M:%SZ", time.gmtime())
    json.dump(meta, open(os.path.join(d, "meta.json"), "w"), indent=1)
    print("CONFIRMED", name)
    return 0


def run(name, tier="quick", extras=()):
    d = os.path.join(SEEDED, name)
    meta = json.load(open(os.path.join(d, "meta.json")))
    prop = meta["property"]
    rc, o = sh("git status --porcelain --untracked-files=no", "/repo")
    if o.strip():
        print("refusing: /repo has uncommitted changes")
        return 2
    rc, o = sh(f"git apply {d}/patch.diff", "/repo")
    if rc != 0:
        print("patch does not apply to /repo:", o)
        return 2
    results = {}
    try:
        for p in [prop] + list(extras):
            t0 = time.time()
            rc, o = sh(f"./check {p} {tier}", VERIF, timeout=7200)
            viol = [l for l in o.splitlines() if l.startswith("VIOLATION")]
            sig = [l.strip() for l in o.splitlines() if l.strip().startswith("signature:")]
            results[p] = {"rc": rc, "violations": len(viol), "first_signature": sig[0] if sig else "", "wall_s": round(time.time() - t0, 1),
                          "verdict": [l for l in o.splitlines() if l.startswith(("HELD", "INCONCLUSIVE", "KNOWN-FINDING"))][:2]}
            print(f"{name}: check {p} {tier}: rc={rc} violations={len(viol)} {sig[0] if sig else ''} {results[p]['verdict']}", flush=True)
    finally:
        sh("git checkout -- .", "/repo")
    meta.setdefault("check_runs", {})[tier] = results
    meta["detected_by_own_property_check"] = meta.get("detected_by_own_property_check", False) or results[prop]["rc"] == 1
    json.dump(meta, open(os.path.join(d, "meta.json"), "w"), indent=1)
    return 0


if __name__ == "__main__":
    if sys.argv[1] == "confirm":
        sys.exit(confirm(sys.argv[2], sys.argv[3], sys.argv[4]))
    if sys.argv[1] == "run":
        sys.exit(run(sys.argv[2], sys.argv[3] if len(sys.argv) > 3 else "quick", sys.argv[4:]))


# properties decided on the same primitive (where a change to one can plausibly be blamed on another)
FAMILIES = [["C02", "C03", "C04"], ["C05", "C06", "C07"], ["C08", "C09", "C10", "C11"], ["C11", "C12"], ["C11", "C13"], ["C10", "C17"]]


def matrix(repo, names, props, tier="quick"):
    """Cross-talk matrix on a scratch copy of the repository (never /repo): for each seeded change
    run the given property checks with FIV_REPO=<repo>; prints one line per (change, property)."""
    out = {}
    env = dict(ENV, FIV_REPO=repo)
    for n in names:
        d = os.path.join(SEEDED, n)
        rc, o = sh(f"git apply {d}/patch.diff", repo)
        if rc != 0:
            print(f"{n}: patch does not apply: {o[-200:]}", flush=True)
            continue
        row = {}
        own = json.load(open(os.path.join(d, "meta.json")))["property"]
        fam = [f for f in FAMILIES if own in f]
        sib = sorted({q for f in fam for q in f if q != own})
        for p in ([own] if props == ["own"] else sib if props == ["siblings"] else props):
            pr = subprocess.run(f"./check {p} {tier}", cwd=VERIF, shell=True, executable="/bin/bash", stdout=subprocess.PIPE, stderr=subprocess.STDOUT, text=True, env=env)
            sig = [l.strip() for l in pr.stdout.splitlines() if l.strip().startswith("signature:")]
            row[p] = {"rc": pr.returncode, "sig": sig[0][:160] if sig else ""}
            print(f"MATRIX {n} {p} rc={pr.returncode} {sig[0][:160] if sig else ''}", flush=True)
        out[n] = row
        sh(f"git apply -R {d}/patch.diff", repo)
    json.dump(out, open(os.path.join(os.environ.get("FIV_ALT_DIR", "/tmp"), "matrix.json"), "w"), indent=1)


if __name__ == "__main__" and sys.argv[1] == "matrix":
    repo = sys.argv[2]
    import re as _re
    allnames = sorted(n for n in os.listdir(SEEDED) if os.path.isdir(os.path.join(SEEDED, n)))
    if sys.argv[3] == "all":
        names = allnames
    elif sys.argv[3].startswith("re:"):      # e.g. re:r4  /  re:^(?!.*r4)
        names = [n for n in allnames if _re.search(sys.argv[3][3:], n)]
    else:
        names = sys.argv[3].split(",")
    props = sys.argv[4].split(",") if len(sys.argv) > 4 and sys.argv[4] != "all" else [f"C{i:02d}" for i in range(1, 21)]
    if len(sys.argv) > 4 and sys.argv[4] in ("own", "siblings"):
        props = [sys.argv[4]]
    matrix(repo, names, props, sys.argv[5] if len(sys.argv) > 5 else "quick")


def import_matrix(path):
    """Folds the verdicts of a matrix run (own-property) into the meta.json files."""
    m = json.load(open(path))
    for n, row in m.items():
        mp = os.path.join(SEEDED, n, "meta.json")
        if not os.path.exists(mp):
            continue
        meta = json.load(open(mp))
        for p, r in row.items():
            meta.setdefault("check_runs", {}).setdefault("quick", {})[p] = {"rc": r["rc"], "violations": 1 if r["rc"] == 1 else 0,
                                                                           "first_signature": r.get("sig", ""), "source": "regression run on a scratch copy (FIV_REPO)"}
        own = meta["property"]
        if own in row:
            meta["detected_by_own_property_check"] = row[own]["rc"] == 1
        json.dump(meta, open(mp, "w"), indent=1)
    print("imported", len(m))


if __name__ == "__main__" and sys.argv[1] == "import-matrix":
    import_matrix(sys.argv[2])
