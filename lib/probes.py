"""C16: the probe matrix (DESIGN §4.C16). Builds every probe program with `--keep-going`,
classifies rustc's verdict per program, runs what builds under Miri."""
import json, os, re, subprocess, time
from concurrent.futures import ThreadPoolExecutor

VERIF = os.path.dirname(os.path.dirname(os.path.abspath(__file__)))
PROBES = os.path.join(VERIF, "probes")
TARGET_ROOT = os.path.join(VERIF, "target")
if os.environ.get("FIV_REPO"):
    import hashlib
    _alt = os.path.join(os.environ.get("FIV_ALT_DIR", "/tmp"), "fiv-alt-" + hashlib.sha1(os.environ["FIV_REPO"].encode()).hexdigest()[:10])
    PROBES = os.path.join(_alt, "probes")
    TARGET_ROOT = os.path.join(_alt, "target")
GUARD = "--cfg futures_intrusive_verif"
TRAIT_WORDS = ("`Send`", "`Sync`", "`Unpin`", "cannot be sent between threads", "cannot be shared between threads", "cannot be unpinned")


def env(target):
    e = dict(os.environ)
    e["CARGO_NET_OFFLINE"] = "true"
    e["RUSTFLAGS"] = GUARD
    e["CARGO_TARGET_DIR"] = os.path.join(TARGET_ROOT, target)
    return e


def build():
    subprocess.run(["python3", "gen.py"], cwd=PROBES, stdout=subprocess.DEVNULL)
    p = subprocess.run(["cargo", "build", "--bins", "--keep-going", "--offline", "--message-format=json"], cwd=PROBES, env=env("probes"),
                       stdout=subprocess.PIPE, stderr=subprocess.PIPE, text=True)
    built, errs, lib_ok = set(), {}, True
    for l in p.stdout.splitlines():
        try:
            m = json.loads(l)
        except Exception:
            continue
        if m.get("reason") == "compiler-artifact" and m["target"]["kind"] == ["bin"]:
            built.add(m["target"]["name"])
        if m.get("reason") == "compiler-message" and m["message"]["level"] == "error":
            t = m["target"]["name"]
            if m["target"]["kind"] != ["bin"]:
                lib_ok = False
            code = (m["message"].get("code") or {}).get("code")
            errs.setdefault(t, []).append((code, m["message"]["message"], m["message"].get("rendered", "")[:1500]))
    return built, errs, lib_ok, p.stderr[-3000:]


def miri_run(binname, seed, timeout=900):
    e = env("probes-miri")
    e["MIRIFLAGS"] = f"-Zmiri-seed={seed} -Zmiri-preemption-rate=0.1"
    t0 = time.time()
    try:
        p = subprocess.run(["cargo", "+nightly", "miri", "run", "--offline", "--quiet", "--bin", binname], cwd=PROBES, env=e,
                           stdout=subprocess.PIPE, stderr=subprocess.PIPE, text=True, timeout=timeout)
        return p.returncode, p.stdout + p.stderr, time.time() - t0
    except subprocess.TimeoutExpired:
        return None, "timeout", time.time() - t0


def run(prop, tier, seed, workdir, replays):
    res = {"violations": [], "inconclusive": [], "notes": [], "agg": {"evals": 0, "nonvac": 0, "samples": []}, "events": 0}
    built, errs, lib_ok, stderr = build()
    matrix = json.load(open(os.path.join(PROBES, "probes.json")))
    if not lib_ok or (not built and not errs):
        res["inconclusive"].append("probe helper library does not build: " + stderr[-400:])
        return res
    rejected, to_run = [], []
    table = []
    for p in matrix:
        b = p["bin"]
        res["agg"]["evals"] += 1
        if p["kind"] == "neg":
            if b in built:
                to_run.append((p, True))
            else:
                e = errs.get(b, [])
                codes = {c for c, _, _ in e}
                named = any(any(w in msg or w in rend for w in TRAIT_WORDS) for _, msg, rend in e)
                if codes == {"E0277"} and named:
                    rejected.append(b)
                    res["agg"]["nonvac"] += 1
                    table.append({"probe": b, "fact": p["fact"], "verdict": "rejected by rustc (E0277)"})
                else:
                    res["inconclusive"].append(f"{b}: rejected for an unrelated reason {sorted(c or '?' for c in codes)}: {e[0][1][:200] if e else ''}")
        else:
            if b in built:
                to_run.append((p, False))
            else:
                e = errs.get(b, [])
                rp = os.path.join(replays, f"C16-{b}-build.log")
                open(rp, "w").write("\n".join(r for _, _, r in e))
                res["violations"].append({"signature": f"probe:{b}:does-not-build", "replay": rp,
                                          "text": f"positive fact lost: {p['fact']} :: {e[0][1][:300] if e else ''}"})
    # run what builds under Miri (exploits that build, and all control twins)
    seeds = [seed % 1000 + 1] if tier == "quick" else [seed % 1000 + 1, seed % 1000 + 2, seed % 1000 + 3]

    def job(item):
        # thorough: several Miri seeds (schedules); the first run that is not clean decides
        p, is_exploit = item
        last = None
        for sd in seeds:
            last = miri_run(p["bin"], sd)
            rc, out, wall = last
            if rc != 0 or "Undefined Behavior" in out:
                break
        return item, last
    # warm the miri build once so that the parallel runs do not fight over the build lock
    if to_run:
        miri_run(to_run[0][0]["bin"], 1)
    with ThreadPoolExecutor(max_workers=12) as ex:
        for (p, is_exploit), (rc, out, wall) in ex.map(job, to_run):
            b = p["bin"]
            res["events"] += 1
            ub = re.search(r"error: Undefined Behavior: (.*)", out)
            aff = "AFFINITY-MONITOR" in out
            if rc is None:
                res["inconclusive"].append(f"{b}: Miri watchdog")
                continue
            if is_exploit:
                rp = os.path.join(replays, f"C16-{b}-miri.log")
                open(rp, "w").write(f"program: /verif/probes/src/bin/{b}.rs\nrun: cd /verif/probes && cargo +nightly miri run --bin {b}\n\n" + out[-30000:])
                what = ub.group(1)[:200] if ub else ("foreign-thread access to a !Send payload" if aff else f"exit code {rc}, no UB observed on this schedule")
                res["violations"].append({"signature": f"probe:{b}:builds", "replay": rp,
                                          "text": f"negative fact lost: {p['fact']} -- the exploit compiles; under Miri: {what}"})
                table.append({"probe": b, "fact": p["fact"], "verdict": "BUILDS; Miri: " + what})
            else:
                if rc == 0 and not ub:
                    res["agg"]["nonvac"] += 1
                    table.append({"probe": b, "fact": p["fact"], "verdict": "builds, runs clean under Miri"})
                else:
                    rp = os.path.join(replays, f"C16-{b}-miri.log")
                    open(rp, "w").write(out[-30000:])
                    # a control twin that misbehaves at run time is a memory-safety report in crate code
                    res["violations"].append({"signature": f"probe:{b}:control-misbehaves", "replay": rp,
                                              "text": f"control program for `{p['fact']}` fails under Miri: {(ub.group(1) if ub else out[-300:])[:300]}"})
    res["agg"]["samples"] = table[:2] + [t for t in table if "BUILDS" in t["verdict"]][:2] + [t for t in table if "clean" in t["verdict"]][:1]
    res["agg"]["x_probe_matrix"] = {"programs": len(matrix), "exploits_rejected_by_rustc": len(rejected),
                                    "exploits_that_build": sum(1 for p, e in to_run if e), "controls_run_under_miri": sum(1 for p, e in to_run if not e)}
    res["agg"]["distinct_extra"] = res["agg"]["nonvac"]
    res["agg"]["x_probe_table"] = table
    return res
