#!/usr/bin/env python3
"""Line coverage of /repo/src reached by the monitors' workloads (reported, never a verdict).

  lib/coverage.py [--quick]   -> evidence/coverage.json + a table on stdout

Builds the harness with -Cinstrument-coverage (nightly, sysroot llvm-tools), runs a sample of every
workload family (history drivers, data structure drivers, threaded workloads), merges the profiles
and exports the per-file summary and the list of never-executed functions of the crate."""
import json, os, subprocess, sys, glob, shutil

VERIF = os.path.dirname(os.path.dirname(os.path.abspath(__file__)))
HARNESS = os.path.join(VERIF, "harness")
TGT = os.path.join(VERIF, "target", "cov")
PROF = os.path.join(VERIF, "work", "cov")
quick = "--quick" in sys.argv

sysroot = subprocess.run(["rustc", "+nightly", "--print", "sysroot"], stdout=subprocess.PIPE, text=True).stdout.strip()
BIN = os.path.join(sysroot, "lib", "rustlib", "x86_64-unknown-linux-gnu", "bin")
env = dict(os.environ, CARGO_NET_OFFLINE="true", RUSTFLAGS="--cfg futures_intrusive_verif -Cinstrument-coverage", CARGO_TARGET_DIR=TGT)
p = subprocess.run(["cargo", "+nightly", "build", "--release", "--offline"], cwd=HARNESS, env=env, stdout=subprocess.PIPE, stderr=subprocess.STDOUT, text=True)
if p.returncode != 0:
    print(p.stdout[-3000:])
    sys.exit(3)
fiv = os.path.join(TGT, "release", "fiv")
shutil.rmtree(PROF, ignore_errors=True)
os.makedirs(PROF, exist_ok=True)
runenv = dict(os.environ, LLVM_PROFILE_FILE=os.path.join(PROF, "fiv-%p-%m.profraw"))
ev = "60000" if quick else "400000"
jobs = []
for d in ["mutex", "semaphore", "event", "timer", "oneshot", "state", "mpmc", "mpmc-bval", "ringbuf", "list", "heap"]:
    jobs.append([fiv, "hist", d, "--events", ev, "--seed", "11", "--prop", "all", "--tier", "thorough", "--k", "4", "--no-shrink", "--replay-dir", os.path.join(PROF, "replays")])
for d in ["mutex", "semaphore", "event", "oneshot", "state", "mpmc"]:
    jobs.append([fiv, "hist", d, "--mode", "bfs", "--events", "3000000", "--max-states", "30000", "--seed", "1", "--prop", "all", "--k", "2", "--replay-dir", os.path.join(PROF, "replays")])
for w in ["mutex", "semaphore", "mpmc", "event", "handles", "oneshot", "state", "timer"]:
    jobs.append([fiv, "conc", w, "--runs", "150" if quick else "1500", "--seed", "3", "--prop", "all", "--replay-dir", os.path.join(PROF, "replays")])
procs = [subprocess.Popen(j, env=runenv, stdout=subprocess.DEVNULL, stderr=subprocess.DEVNULL) for j in jobs]
for pr in procs:
    pr.wait()
raws = glob.glob(os.path.join(PROF, "*.profraw"))
prof = os.path.join(PROF, "fiv.profdata")
subprocess.run([os.path.join(BIN, "llvm-profdata"), "merge", "-sparse", "-o", prof] + raws, check=True)
exp = subprocess.run([os.path.join(BIN, "llvm-cov"), "export", fiv, "-instr-profile=" + prof, "-ignore-filename-regex=(registry|rustc|/verif/)"], stdout=subprocess.PIPE, text=True)
data = json.loads(exp.stdout)["data"][0]
files = {}
for f in data["files"]:
    if "/repo/src/" in f["filename"]:
        s = f["summary"]["lines"]
        files[f["filename"].replace("/repo/", "")] = {"lines": s["count"], "covered": s["covered"], "percent": round(s["percent"], 1)}
never = sorted({fn["name"] for fn in data["functions"] if fn["count"] == 0 and any("/repo/src/" in x for x in fn["filenames"])})
# demangle roughly
dem = subprocess.run(["rustfilt"], input="\n".join(never), stdout=subprocess.PIPE, text=True).stdout.splitlines() if shutil.which("rustfilt") else never
out = {"files": files, "functions_never_executed": dem[:400], "jobs": len(jobs)}
os.makedirs(os.path.join(VERIF, "evidence"), exist_ok=True)
json.dump(out, open(os.path.join(VERIF, "evidence", "coverage.json"), "w"), indent=1)
tot = sum(v["lines"] for v in files.values())
cov = sum(v["covered"] for v in files.values())
for k, v in sorted(files.items()):
    print(f"{v['percent']:6.1f}%  {v['covered']:5d}/{v['lines']:5d}  {k}")
print(f"TOTAL {100.0*cov/max(1,tot):.1f}%  {cov}/{tot}; functions never executed: {len(never)}")
