#!/usr/bin/env python3
"""Regenerates /verif/MANIFEST.json from the plan (claimed = properties that have legs)."""
import json, os, sys, subprocess
sys.path.insert(0, os.path.dirname(os.path.abspath(__file__)))
import plan

VERIF = os.path.dirname(os.path.dirname(os.path.abspath(__file__)))
props = [json.loads(l) for l in open(os.path.join(VERIF, "properties.jsonl"))]

TEXT = {
    "C01": ("Runtime monitoring: after every event of real single-thread histories (random, scenario-seeded, and breadth-first replay to a fixpoint of the abstract joint state) of every primitive family and flavour, a hook walks the primitive's wait queue / heap under the primitive's own lock and compares it with the harness's registry of live futures and with each node's own poll state (queue membership <=> the node says it is waiting); the same histories run under Miri and AddressSanitizer (boxed futures: a dangling waiter is a real freed block), threaded workloads with cancellation on foreign threads run natively with injected delays, under Miri seeds and under ThreadSanitizer.", "§4.C01"),
    "C02": ("Runtime monitoring: guard count kept by the harness vs every poll/try_lock result and is_locked() after every event (both fairness modes, three lock flavours, fixpoint + random histories); threaded: non-atomic counter under the guard with a Relaxed in-critical-section flag, under Miri's and TSan's race detectors.", "§4.C02"),
    "C03": ("Runtime monitoring: 'mutex free and somebody pending implies somebody (fair: the longest waiter) was woken through the waker of its latest poll' evaluated after every event of fixpoint + random histories with identity wakers; threaded looping tasks with cancellation where a lost wake-up is a logical deadlock.", "§4.C03"),
    "C04": ("Runtime monitoring: arrival stamps kept by the harness; every completion on a fair mutex is checked against the pending set (fixpoint + random histories).", "§4.C04"),
    "C05": ("Runtime monitoring: permit ledger compared with permits() after every event; acquisitions checked against availability; threaded in-use counter never exceeds the total.", "§4.C05"),
    "C06": ("Runtime monitoring: 'pending and nobody holds an unconsumed wake-up implies the longest-waiting request does not fit' after every event, with the wait-start re-stamp rule of the property; threaded workloads with over-sized always-timing-out requests where a strand is a logical deadlock.", "§4.C06"),
    "C07": ("Runtime monitoring: arrival stamps; every completion of a request n>0 on a fair semaphore checked against the pending set; zero requests must complete immediately.", "§4.C07"),
    "C08": ("Runtime monitoring: per-tag location ledger and drop counters over histories with uniquely tagged drop-counting payloads; end-of-history audit drops==1; threaded producers/consumers with abandoning consumers and cancelling producers; boxed payload variant under Miri/ASan.", "§4.C08"),
    "C09": ("Runtime monitoring: received tags compared with a 15-line reference FIFO of send-effect points, capacity bound after every event; threaded per-producer order and pairwise queue-linearizability condition on call/return stamps.", "§4.C09"),
    "C10": ("Runtime monitoring: reference-model availability vs per-future unconsumed-wake flags after every event; threaded balanced producers/consumers must terminate (logical deadlock detection).", "§4.C10"),
    "C11": ("Runtime monitoring: reference closed flag + handle counts; side-effect-free closed-ness probe after every event; clone/drop orders of shared handles; threaded holder never observes closed while others clone/drop.", "§4.C11"),
    "C12": ("Runtime monitoring: 4-state reference model of the oneshot / broadcast channel + clone ledger, wake flags at send/close.", "§4.C12"),
    "C13": ("Runtime monitoring: publication log kept by the harness; every receive/try_receive result checked against it; wake flags at send/close.", "§4.C13"),
    "C14": ("Runtime monitoring: per-waiter latch in the harness (exact in both directions) vs every poll result; wake flags at set(); threaded never-early check.", "§4.C14"),
    "C15": ("Runtime monitoring: sorted-multiset reference for deadlines; poll results, wake sets, wake order (from the global wake log) and next_expiration() after every event; heap validator.", "§4.C15"),
    "C16": ("Witness matrix of exploit / control programs: a negative trait fact holds for a witness if rustc rejects the exploit (E0277) while its control twin builds and runs clean; an exploit that builds is executed under Miri with a thread-affinity monitor and the observed data race / foreign-thread access is the violation.", "§4.C16"),
    "C17": ("Runtime monitoring: is_terminated() sampled after every event of every history for every future type vs the harness's completion record; poll-after-completion must panic; stream items vs reference FIFO.", "§4.C17"),
    "C18": ("Runtime monitoring: counting global allocator armed exactly around crate calls over every history (local, thread-safe, shared flavours).", "§4.C18"),
    "C19": ("Runtime monitoring: differential test of the three ring buffers against VecDeque with drop-counting and boxed elements, natively, under Miri and ASan.", "§4.C19"),
    "C20": ("Runtime monitoring: differential test of the intrusive list / pairing heap against VecDeque / sorted multiset with a structural validator after every operation, natively (also with debug assertions), under Miri and ASan (the data structures are driven in isolation: exhaustive sweep of all operation sequences to a depth, fixpoint of the abstract state, random long sequences).", "§4.C20"),
}
NOTE = ("Held = held on the executions this run produced (counts in the evidence file). Trusted: rustc/LLVM, Miri / sanitizer runtimes, "
        "the harness's registries, identity wakers and reference models (validated against seeded breaks, DESIGN.md §7). "
        "No claim about histories longer / wider than explored, schedules not produced, or types not instantiated.")
THREADED = "runtime monitoring: history oracle over hooked state (single-thread fixpoint + random + scenario histories) and threaded stress monitor with history oracles over call / return stamps"
TECH = {
    "C02": THREADED + " (holder overlap, non-atomic counter under ThreadSanitizer / Miri)",
    "C03": THREADED + " (logical deadlock rule with waker generations)",
    "C04": THREADED + " (fairness oracle over first-poll / completion stamps)",
    "C05": THREADED + " (permit ledger, borrowed and shared flavour)",
    "C06": THREADED + " (logical deadlock rule with waker generations)",
    "C07": THREADED + " (fairness oracle over first-poll / completion stamps)",
    "C08": THREADED + " (exactly-once ledger of unique values; sanitizers)",
    "C09": THREADED + " (FIFO pair condition with effect points, capacity interval overlap)",
    "C10": THREADED + " (logical deadlock rule with waker generations)",
    "C11": THREADED + " (last-handle races, close / send race)",
    "C12": THREADED + " (winner-takes-all race of two senders and a closer)",
    "C13": THREADED + " (followers against the publication order, both flavours)",
    "C14": THREADED + " (linearizability search of short histories against the latching event)",
    "C15": THREADED + " (logical rule for a due timer skipped by check_expirations)",
    "C16": "compile-probe matrix + Miri race detector with thread-affinity monitor",
    "C19": "differential runtime monitor vs VecDeque + drop counters (native, Miri, ASan)",
    "C20": "differential runtime monitor + structural validator (native, debug-assert, Miri, ASan)",
    "C18": "counting global allocator armed around crate calls",
}

checks, na = [], []
for p in props:
    pid = p["id"]
    if plan.legs(pid, "quick"):
        text, ref = TEXT[pid]
        checks.append({
            "property_id": pid,
            "quick_cmd": f"./check {pid} quick",
            "thorough_cmd": f"./check {pid} thorough",
            "evidence_file": f"/verif/evidence/{pid}.json",
            "replay_cmd_template": f"./check {pid} --replay {{path}}",
            "engine": "fiv",
            "level_claimed": {"category": plan.LEVEL.get(pid, "exploration"), "text": text, "design_ref": "DESIGN.md " + ref},
            "level_note": plan.LEVEL_NOTE.get(pid, NOTE) if hasattr(plan, "LEVEL_NOTE") else NOTE,
            "technique": TECH.get(pid, "runtime monitoring: history oracle over hooked state (single-thread fixpoint + random histories" + (", sanitizers" if pid in plan.MEMORY_CLASS else "") + ")"),
        })
    else:
        na.append({"property_id": pid, "reason": getattr(plan, "NOT_APPLICABLE", {}).get(pid, "check not built yet (implementation in progress; DESIGN.md §10)")})

hooks = subprocess.run(["git", "-C", "/repo", "log", "--format=%H %s"], stdout=subprocess.PIPE, text=True).stdout.splitlines()
hook_commits = [l.split()[0] for l in hooks if "verif hooks" in l]
m = {
    "version": 1,
    "setup_cmd": "./check --build release dbg asan miri tsan",
    "hooks": {
        "guard": "--cfg futures_intrusive_verif",
        "enable": "RUSTFLAGS='--cfg futures_intrusive_verif' (set by ./check for every build variant; the harness crate /verif/harness depends on /repo by path)",
        "baseline_off_cmd": "cd /repo && cargo test --workspace --no-fail-fast --offline",
        "source_commits": hook_commits,
        "add_only": True,
    },
    "engines": [
        {"name": "fiv", "path": "/verif/harness", "serves_properties": [c["property_id"] for c in checks],
         "kind_free_text": "Rust harness: single-thread history monitor (random + fixpoint), threaded stress monitor, data-structure differential monitors; run natively, under Miri, ASan, TSan, memcheck"},
    ],
    "checks": checks,
    "not_applicable": na,
    "notes": "Runtime monitoring and sanitizers only. Exit 3 + INCONCLUSIVE line = watchdog / harness error / too few non-vacuous evaluations (never folded into pass or violation).",
}
json.dump(m, open(os.path.join(VERIF, "MANIFEST.json"), "w"), indent=1)
print("claimed:", [c["property_id"] for c in checks])
