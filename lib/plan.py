"""Per-property workload plan (DESIGN §4, §8). A *leg* is one workload on one
build variant, sharded over the cores."""

MEMORY_CLASS = {"C01", "C02", "C08", "C16", "C19", "C20"}
LEVEL = {"C16": "other"}

DEFAULT_RULE = (
    "Real histories of create / poll(waker A|B) / drop / primitive operations are executed against the crate "
    "(seeded random with 4 bias profiles, novelty bias, hand-written hostile prefixes, and breadth-first replay "
    "to a fixpoint of the abstract joint state); after every event the property's predicates are evaluated. "
    "evaluations = predicate evaluations of this property; a case is non-trivial when the predicate's antecedent "
    "held (the evaluation could have failed); distinct_nontrivial = number of distinct (abstract joint state "
    "fingerprint before the event, event, predicate) triples among the non-trivial ones, unioned over all shards."
)
RULE = {}
EXPLANATION = {}

ASSUMPTIONS = [
    "rustc/LLVM, the Miri interpreter and the sanitizer runtimes are trusted",
    "the harness's own registries, reference models and identity wakers are trusted (validated by seeded breaks, see DESIGN.md §7)",
    "held = held on the executions produced by this run; nothing is claimed about histories, schedules or types not exercised",
    "native call/return stamps of threaded runs assume x86-TSO",
]


def hist(name, driver, mode="random", variant="release", events=400_000, k=3, shards=16, timeout=900, extra=None, **kw):
    args = ["hist", driver, "--mode", mode, "--prop", "{prop}", "--seed", "{seed}", "--events", str(events), "--k", str(k),
            "--tier", "{tier}", "--replay-dir", "{replays}", "--shard", "{shard}", "--shards", "{shards}"] + (extra or [])
    d = {"name": name, "variant": variant, "shards": shards, "args": args, "timeout": timeout}
    d.update(kw)
    return d


def std_hist(driver, tier, bfs_k_quick=3, bfs_k_thorough=4, bfs_shards=None):
    """The standard composition for a behavioural property of one driver."""
    if tier == "quick":
        return [
            hist(f"{driver}-bfs", driver, mode="bfs", events=60_000_000, k=bfs_k_quick, shards=bfs_shards or 16, extra=["--max-states", "400000"], timeout=600),
            hist(f"{driver}-rand", driver, events=600_000, k=3, shards=12),
            hist(f"{driver}-rand-k5", driver, events=300_000, k=5, shards=4, seed_offset=77),
        ]
    return [
        hist(f"{driver}-bfs", driver, mode="bfs", events=3_000_000_000, k=bfs_k_thorough, shards=bfs_shards or 16, extra=["--max-states", "4000000"], timeout=3000),
        hist(f"{driver}-rand", driver, events=20_000_000, k=3, shards=8),
        hist(f"{driver}-rand-k4", driver, events=10_000_000, k=4, shards=4, seed_offset=55),
        hist(f"{driver}-rand-k6", driver, events=10_000_000, k=6, shards=4, seed_offset=77),
        hist(f"{driver}-dbg", driver, variant="dbg", events=3_000_000, k=4, shards=8, seed_offset=99),
    ]


PLAN = {
    "C02": lambda tier: std_hist("mutex", tier),
    "C03": lambda tier: std_hist("mutex", tier),
    "C04": lambda tier: std_hist("mutex", tier),
}

FLOORS = {
    # property: (quick, thorough) minimum number of non-vacuous evaluations
    "C02": (100_000, 1_000_000),
    "C03": (10_000, 100_000),
    "C04": (500, 5_000),
}


def legs(prop, tier):
    f = PLAN.get(prop)
    return f(tier) if f else []


def floor(prop, tier):
    q, t = FLOORS.get(prop, (1, 1))
    return q if tier == "quick" else t
