"""Per-property workload plan (DESIGN §4, §8). A *leg* is one workload on one
build variant, sharded over the cores."""

MEMORY_CLASS = {"C01", "C02", "C08", "C16", "C19", "C20"}
LEVEL = {"C16": "other"}

DEFAULT_RULE = (
    "Real histories of create / poll(waker A|B) / drop / primitive operations are executed against the crate "
    "(seeded random with 4 bias profiles, novelty bias, hand-written hostile prefixes, and breadth-first replay "
    "to a fixpoint of the abstract joint state); after every event the property's predicates are evaluated. "
    "evaluations = predicate evaluations of this property; a case is non-trivial when the predicate's antecedent "
    "held (the evaluation could have failed); distinct_nontrivial = number of distinct (abstract joint state "
    "fingerprint before the event, event, predicate) triples among the non-trivial ones, unioned over all shards. "
    "Threaded legs (conc-*): one evaluation = one predicate over the merged call / return history of one run on 3-6 OS threads "
    "(counters conc[..] report runs, distinct interleaving signatures, wake-ups delivered, stale wake-ups ignored, cancelled / completed "
    "futures, logical deadlock evaluations, watchdogs, discarded runs); sanitizer legs count their reports."
)
RULE = {
    "C16": "One probe program per (public type, trait fact). evaluations = probe programs judged; a case is non-trivial when it produced a verdict "
           "that could have gone the other way: an exploit program rejected by rustc with E0277 naming Send/Sync/Unpin (its control twin builds), or a "
           "control twin that builds and runs clean under Miri. distinct_nontrivial = number of such distinct programs.",
}
EXPLANATION = {
    "C16": "The for-all-types statement is a fact about the trait solver and cannot be observed on executions. Decided on a finite witness matrix: "
           "for every negative fact an exploit program is built; if rustc rejects it (E0277) no execution exists for that witness (held); if it "
           "builds it is executed under Miri (data-race detector) with a thread-affinity monitor and what is observed is the violation. Positive "
           "facts are control twins that must build and run clean under Miri.",
}

ASSUMPTIONS = [
    "rustc/LLVM, the Miri interpreter and the sanitizer runtimes are trusted",
    "the harness's own registries, reference models and identity wakers are trusted (validated by seeded breaks, see DESIGN.md §7)",
    "held = held on the executions produced by this run; nothing is claimed about histories, schedules or types not exercised",
    "native call/return stamps of threaded runs assume x86-TSO",
]


def hist(name, driver, mode="random", variant="release", events=400_000, k=3, shards=16, timeout=900, extra=None, **kw):
    args = ["hist", driver, "--mode", mode, "--prop", "{prop}", "--seed", "{seed}", "--events", str(events), "--k", str(k),
            "--tier", "{tier}", "--replay-dir", "{replays}", "--shard", "{shard}", "--shards", "{shards}"] + (extra or [])
    d = {"name": name, "variant": variant, "shards": shards, "args": args, "timeout": timeout}
    d.update(kw)
    return d


# per driver: (bfs k quick, bfs cfg filter quick, bfs k thorough, #configs quick, #configs thorough)
BFS = {
    "mutex":     {"qk": 3, "tk": 4, "qn": 4, "tn": 6},
    "semaphore": {"qk": 2, "tk": 3, "qn": 24, "tn": 48},
    "event":     {"qk": 3, "tk": 5, "qn": 4, "tn": 6},
    "timer":     {"qk": 3, "tk": 3, "qn": 3, "tn": 5},
    "oneshot":   {"qk": 3, "tk": 4, "qn": 8, "tn": 12},
    "state":     {"qk": 2, "tk": 3, "qn": 4, "tn": 6},
    "mpmc":      {"qk": 1, "tk": 2, "qn": 16, "tn": 48},
}


def driver_legs(driver, tier, scale=1.0, with_bfs=True):
    """Standard composition for one driver: fixpoint exploration + random histories at several k."""
    b = BFS[driver]
    out = []
    if tier == "quick":
        if with_bfs:
            out.append(hist(f"{driver}-bfs", driver, mode="bfs", events=80_000_000, k=b["qk"], shards=min(16, b["qn"]),
                            extra=["--max-states", "600000"], timeout=900))
            if driver == "mpmc":
                out.append(hist("mpmc-bfs-k2", driver, mode="bfs", events=60_000_000, k=2, shards=8,
                                extra=["--max-states", "400000", "--cfg", "shared=0,buf=array"], timeout=900))
        out.append(hist(f"{driver}-rand", driver, events=int(500_000 * scale), k=3, shards=8))
        out.append(hist(f"{driver}-rand-k5", driver, events=int(250_000 * scale), k=5, shards=4, seed_offset=77))
        out.append(hist(f"{driver}-scen", driver, mode="scenario", events=50_000_000, k=5, shards=min(8, b["qn"])))
    else:
        if with_bfs:
            out.append(hist(f"{driver}-bfs", driver, mode="bfs", events=4_000_000_000, k=b["tk"], shards=min(16, b["tn"]),
                            extra=["--max-states", "6000000"], timeout=5400))
            if driver == "timer":
                out.append(hist("timer-bfs-k4-partial", driver, mode="bfs", events=300_000_000, k=4, shards=5,
                                extra=["--max-states", "3000000", "--max-depth", "12"], timeout=3000))
        out.append(hist(f"{driver}-rand", driver, events=int(15_000_000 * scale), k=3, shards=8))
        out.append(hist(f"{driver}-rand-k4", driver, events=int(8_000_000 * scale), k=4, shards=4, seed_offset=55))
        out.append(hist(f"{driver}-rand-k6", driver, events=int(8_000_000 * scale), k=6, shards=4, seed_offset=77))
        out.append(hist(f"{driver}-dbg", driver, variant="dbg", events=int(3_000_000 * scale), k=4, shards=4, seed_offset=99))
        out.append(hist(f"{driver}-scen", driver, mode="scenario", events=200_000_000, k=6, shards=min(16, b["tn"])))
        out.append(hist(f"{driver}-scen-dbg", driver, mode="scenario", variant="dbg", events=200_000_000, k=6, shards=min(16, b["tn"])))
    return out


def san_legs(driver, tier, k=3, asan_events=None, miri_events=None, miri_shards=None):
    """Sanitizer legs for the memory-class properties: the same histories under AddressSanitizer and
    under Miri, half of them with the structural monitor switched off (`--no-inspect`) so that a
    dangling waiter is actually followed and the tool - not the monitor - sees the use-after-free."""
    q = tier == "quick"
    ae = asan_events or (150_000 if q else 3_000_000)
    me = miri_events or (90 if q else 250)
    ms = miri_shards or (2 if q else 8)
    out = [
        hist(f"{driver}-asan-raw", driver, variant="asan", events=ae, k=k, shards=2 if q else 6, extra=["--no-inspect", "--no-shrink"], leaks=False, seed_offset=1000),
        hist(f"{driver}-asan", driver, variant="asan", events=ae // 2, k=k + 1, shards=1 if q else 4, extra=["--no-shrink"], seed_offset=2000),
        hist(f"{driver}-miri-raw", driver, variant="miri", events=me, k=k, shards=ms, extra=["--no-inspect", "--no-shrink"], timeout=600 if q else 2400, seed_offset=3000),
        hist(f"{driver}-miri", driver, variant="miri", events=me, k=k, shards=ms, extra=["--no-shrink"], timeout=600 if q else 2400, seed_offset=4000),
    ]
    if not q:
        out.append(hist(f"{driver}-memcheck", driver, events=300_000, k=k, shards=2, extra=["--no-inspect", "--no-shrink"], valgrind=True, timeout=3000, seed_offset=5000))
    return out


def conc(name, workload, variant="release", runs=1500, shards=8, timeout=900, **kw):
    args = ["conc", workload, "--prop", "{prop}", "--seed", "{seed}", "--runs", str(runs), "--replay-dir", "{replays}", "--secs", str(int(timeout * 0.6))]
    d = {"name": name, "variant": variant, "shards": shards, "args": args, "timeout": timeout}
    d.update(kw)
    return d


def conc_legs(workload, tier, sanitizers=False, scale=1.0):
    """Threaded stress: many short native runs with injected delays at the W1/W2 windows, tiny runs under
    Miri with different seeds / preemption rates, and (memory-class properties) ThreadSanitizer."""
    q = tier == "quick"
    out = [
        conc(f"conc-{workload}", workload, runs=2500 if q else int(4_000 * scale), shards=6 if q else 16, timeout=600 if q else 2400),
        conc(f"conc-{workload}-miri", workload, variant="miri", runs=4 if q else 12, shards=3 if q else 16, timeout=300 if q else 1500,
             miriflags="-Zmiri-preemption-rate=0.05", seed_offset=700),
    ]
    # debug assertions on: the crate's own consistency debug_assert!s become panics (= C01 violations)
    out.append(conc(f"conc-{workload}-dbg", workload, variant="dbg", runs=1500 if q else int(3_000 * scale), shards=4 if q else 8, timeout=600 if q else 2400, seed_offset=600))
    if not q:
        out.append(conc(f"conc-{workload}-miri-p2", workload, variant="miri", runs=8, shards=8, timeout=1500, miriflags="-Zmiri-preemption-rate=0.2", seed_offset=900))
    if sanitizers:
        out.append(conc(f"conc-{workload}-tsan", workload, variant="tsan", runs=600 if q else int(1_500 * scale), shards=2 if q else 8, timeout=600 if q else 2400, seed_offset=800))
    return out


ALL_WORKLOADS = ["mutex", "semaphore", "mpmc", "event", "handles", "oneshot", "state", "timer"]
ALL_DRIVERS = ["mutex", "semaphore", "event", "timer", "oneshot", "state", "mpmc"]


def all_drivers(tier, scale=0.4):
    out = []
    for d in ALL_DRIVERS:
        out += driver_legs(d, tier, scale=scale)
    return out


def c19(tier):
    q = tier == "quick"
    return san_legs("ringbuf", tier, k=1, miri_events=250 if q else 600, miri_shards=4 if q else 12) + [
        hist("ringbuf-sweep", "ringbuf", mode="sweep", events=400_000_000, k=1, shards=16, extra=["--max-depth", "12" if q else "16"], timeout=1800),
        hist("ringbuf-rand", "ringbuf", events=1_000_000 if q else 20_000_000, k=1, shards=8),
        hist("ringbuf-dbg", "ringbuf", variant="dbg", events=500_000 if q else 5_000_000, k=1, shards=4, seed_offset=31),
    ]


def c20(tier):
    q = tier == "quick"
    return san_legs("list", tier, k=4, miri_events=150 if q else 400, miri_shards=3 if q else 8) + san_legs("heap", tier, k=5, miri_events=150 if q else 400, miri_shards=3 if q else 8) + [
        hist("list-sweep", "list", mode="sweep", events=2_000_000_000, k=4, shards=1, extra=["--max-depth", "6" if q else "7"], timeout=3000),
        hist("list-bfs", "list", mode="bfs", events=50_000_000, k=5 if q else 6, shards=1),
        hist("heap-sweep", "heap", mode="sweep", events=2_000_000_000, k=5, shards=1, extra=["--max-depth", "8" if q else "10"], timeout=3000),
        hist("heap-bfs", "heap", mode="bfs", events=200_000_000, k=5 if q else 6, shards=1, extra=["--max-states", "2000000", "--max-depth", "40"], timeout=3000),
        hist("list-rand", "list", events=1_000_000 if q else 20_000_000, k=5, shards=3),
        hist("heap-rand", "heap", events=1_000_000 if q else 20_000_000, k=6, shards=3),
        hist("list-dbg", "list", variant="dbg", events=500_000 if q else 10_000_000, k=5, shards=2, seed_offset=31),
        hist("heap-dbg", "heap", variant="dbg", events=500_000 if q else 10_000_000, k=6, shards=2, seed_offset=31),
        hist("list-dbg-sweep", "list", mode="sweep", variant="dbg", events=2_000_000_000, k=4, shards=1, extra=["--max-depth", "5" if q else "6"], timeout=3000),
        hist("heap-dbg-sweep", "heap", mode="sweep", variant="dbg", events=2_000_000_000, k=5, shards=1, extra=["--max-depth", "7" if q else "9"], timeout=3000),
    ]


PLAN = {
    "C16": lambda tier: [{"kind": "probes", "name": "probe-matrix"}],
    "C19": c19,
    "C20": c20,
    "C01": lambda tier: all_drivers(tier) + [l for d in ALL_DRIVERS for l in san_legs(d, tier)] + san_legs("mpmc-bval", tier)
                        + [l for w in ALL_WORKLOADS for l in conc_legs(w, tier, sanitizers=True, scale=0.25)]
                        + ([{"kind": "coverage", "name": "coverage"}] if tier == "thorough" else []),
    "C02": lambda tier: driver_legs("mutex", tier) + conc_legs("mutex", tier, sanitizers=True),
    "C03": lambda tier: driver_legs("mutex", tier) + conc_legs("mutex", tier),
    "C04": lambda tier: driver_legs("mutex", tier) + conc_legs("mutex", tier),
    "C05": lambda tier: driver_legs("semaphore", tier) + conc_legs("semaphore", tier),
    "C06": lambda tier: driver_legs("semaphore", tier) + conc_legs("semaphore", tier),
    "C07": lambda tier: driver_legs("semaphore", tier) + conc_legs("semaphore", tier),
    "C08": lambda tier: driver_legs("mpmc", tier) + san_legs("mpmc-bval", tier, miri_shards=4 if tier == "quick" else 12) + conc_legs("mpmc", tier, sanitizers=True) + conc_legs("handles", tier),
    "C09": lambda tier: driver_legs("mpmc", tier) + conc_legs("mpmc", tier),
    "C10": lambda tier: driver_legs("mpmc", tier) + conc_legs("mpmc", tier),
    "C11": lambda tier: driver_legs("mpmc", tier, 0.6) + driver_legs("oneshot", tier, 0.6) + driver_legs("state", tier, 0.6) + conc_legs("handles", tier),
    "C12": lambda tier: driver_legs("oneshot", tier) + conc_legs("oneshot", tier),
    "C13": lambda tier: driver_legs("state", tier) + conc_legs("state", tier),
    "C14": lambda tier: driver_legs("event", tier) + conc_legs("event", tier),
    "C15": lambda tier: driver_legs("timer", tier) + conc_legs("timer", tier),
    "C17": lambda tier: all_drivers(tier),
    "C18": lambda tier: all_drivers(tier),
}

FLOORS = {
    # property: (quick, thorough) minimum number of non-vacuous evaluations
    # (set >= 10x below what the unchanged tree produces)
    "C01": (500_000, 5_000_000),
    "C02": (100_000, 1_000_000),
    "C03": (10_000, 100_000),
    "C04": (500, 5_000),
    "C05": (100_000, 1_000_000),
    "C06": (10_000, 100_000),
    "C07": (1_000, 10_000),
    "C08": (100_000, 1_000_000),
    "C09": (100_000, 1_000_000),
    "C10": (20_000, 200_000),
    "C11": (100_000, 1_000_000),
    "C12": (50_000, 500_000),
    "C13": (100_000, 1_000_000),
    "C14": (100_000, 1_000_000),
    "C15": (100_000, 1_000_000),
    "C17": (500_000, 5_000_000),
    "C18": (500_000, 5_000_000),
    "C16": (100, 100),
    "C19": (1_000_000, 10_000_000),
    "C20": (1_000_000, 10_000_000),
}


def legs(prop, tier):
    f = PLAN.get(prop)
    return f(tier) if f else []


def floor(prop, tier):
    q, t = FLOORS.get(prop, (1, 1))
    return q if tier == "quick" else t
