#!/usr/bin/env python3
"""Writes seeded/RESULTS.md from the meta.json files."""
import json, os
V = os.path.dirname(os.path.dirname(os.path.abspath(__file__)))
S = os.path.join(V, "seeded")
rows = []
for n in sorted(os.listdir(S)):
    mp = os.path.join(S, n, "meta.json")
    if not os.path.exists(mp):
        continue
    m = json.load(open(mp))
    runs = m.get("check_runs", {})
    q = runs.get("quick", {}).get(m["property"], {})
    sig = q.get("first_signature", "").replace("signature: ", "")
    others = {p: r["rc"] for p, r in runs.get("quick", {}).items() if p != m["property"]}
    verdict = "VIOLATION" if q.get("rc") == 1 else ("held" if q.get("rc") == 0 else ("inconclusive" if q.get("rc") == 3 else str(q.get("rc"))))
    if m.get("caught_by_other"):
        verdict += " (caught elsewhere)"
        sig = m["caught_by_other"]
    rows.append((n, m["property"], m.get("summary", "")[:170], m.get("needs", "")[:140], verdict, sig[:400], m.get("origin", "sub-agent")))
out = ["# Seeded changes and the checks that catch them", "",
       "Every change compiles, passes the 221 tests + 10 doctests, and breaks the named property (confirmed by `lib/seeded.py confirm`).",
       "`quick` = verdict of `./check <property> quick` with the change applied (final regression run over all changes on a scratch copy of the final tree, `notes/matrix_final.log`).", "",
       "| change | property | what was changed | needs | quick | first violation signature |", "|---|---|---|---|---|---|"]
for r in rows:
    out.append(f"| {r[0]} | {r[1]} | {r[2]} | {r[3]} | {r[4]} | {r[5] if 'elsewhere' in r[4] else '`' + r[5] + '`'} |")
open(os.path.join(S, "RESULTS.md"), "w").write("\n".join(out) + "\n")
print(len(rows), "changes;", sum(1 for r in rows if r[4] == "VIOLATION"), "caught by quick")
